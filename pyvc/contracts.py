"""pyvc.contracts -- the sidecar contract registry.

A contract is a class in /verif/contracts/*.py decorated with @contract('<module>.<qualname>'):

    params     dict  parameter name -> type descriptor (how the symbolic initial state is built)
    requires   f(<params>) -> bool | [(label, bool)]      preconditions (type / safety invariants)
    spec       f(<params>) -> result, may raise           documentation-derived next-state function
    ensures    f(old, <params>, result, raised) -> [...]   extra postconditions (frames, invariants)
    modifies   tuple of paths ('stack.deque', 'tape.pointer', 'cache') or None (= unrestricted)
    loops      {ordinal: {'inv': f, 'variant': f, 'modifies': (...)}}   parameters of f are names of
               local variables of the verified function (+ `i` loop index, `old`, `loop_old`)
    cases      list of (label, f(mk) -> dict) alternative initial states (aliasing cases)
    raises     exception classes a spec-less contract may raise at a call site
    trusted    True: assumed, never verified (external / deliberately unverified), listed in evidence
    compare    names of parameters (or 'result') whose final state the spec refinement compares
"""
from __future__ import annotations
import ast
import importlib
import inspect
import os
import sys
import types
from .interp import AstFunc

INLINE = {'errors.sert', 'errors.vert', 'errors.tert', 'errors.yert'}


class Contract:
    def __init__(self, key, cls, module):
        self.key = key
        self.cls = cls
        self.module = module
        self.name = cls.__name__
        d = cls.__dict__
        self.params = d.get('params')
        self.modifies = d.get('modifies')
        self.trusted = bool(d.get('trusted', False))
        self.raises = tuple(d.get('raises', ()))
        self.returns = d.get('returns')
        self.pure = d.get('pure')              # name of the logical function the result is (deterministic in its args)
        self.compare = d.get('compare')
        self.loops_decl = d.get('loops', {})
        self.cases_decl = d.get('cases')
        self.extends = d.get('extends', None)  # key of a parent contract whose requires/ensures are added
        self.assumptions = tuple(d.get('assumptions', ()))
        self.tags = tuple(d.get('tags', ()))
        self.fn = {}
        for n in ('requires', 'spec', 'ensures', 'state'):
            f = d.get(n)
            if isinstance(f, staticmethod):
                f = f.__func__
            if f is not None:
                self.fn[n] = f


class Registry:
    def __init__(self, src, sidecar_dir=None, modules=None):
        self.src = src
        self.contracts = {}
        self.side_trees = {}      # module name -> (ast tree, live module)
        self.side_funcs = {}      # id(live function code) -> AstFunc
        self.inline = set(INLINE)
        self.dir = sidecar_dir or os.path.join(os.path.dirname(os.path.dirname(__file__)), 'contracts')
        self.dispatch = None
        if modules is None:
            modules = sorted(f[:-3] for f in os.listdir(self.dir) if f.endswith('.py') and not f.startswith('_'))
        root = os.path.dirname(self.dir)
        if root not in sys.path:
            sys.path.insert(0, root)
        for m in modules:
            self.load(m)

    def load(self, m):
        name = f'contracts.{m}'
        if name in sys.modules:
            mod = importlib.reload(sys.modules[name])
        else:
            mod = importlib.import_module(name)
        path = mod.__file__
        with open(path) as f:
            tree = ast.parse(f.read(), filename=path)
        self.side_trees[name] = (tree, mod)
        self._index(tree.body, mod, '')
        for obj in mod.__dict__.values():
            k = getattr(obj, '__contract_key__', None)
            if k is not None and isinstance(obj, type) and obj.__module__ == name:
                if k in self.contracts:
                    raise RuntimeError(f'duplicate contract for {k}')
                self.contracts[k] = Contract(k, obj, mod)

    def _index(self, body, mod, prefix):
        for n in body:
            if isinstance(n, ast.FunctionDef):
                self.side_funcs[(mod.__name__, prefix + n.name)] = n
            elif isinstance(n, ast.ClassDef):
                self._index(n.body, mod, prefix + n.name + '.')

    # -- lookups -----------------------------------------------------------------------------
    def get(self, key):
        return self.contracts.get(key)

    def policy(self, key):
        if key in self.inline:
            return 'inline'
        if key in self.contracts:
            return 'contract'
        return 'none'

    def side_ast(self, fn):
        """live sidecar function -> AstFunc (interpreted by body)"""
        fn = getattr(fn, '__func__', fn)
        node = self.side_funcs.get((fn.__module__, fn.__qualname__))
        if node is None:
            return None
        return AstFunc(node, fn.__globals__, None, key=None, name=fn.__qualname__)

    def contract_fn(self, c: Contract, which):
        f = c.fn.get(which)
        return self.side_ast(f) if f is not None else None

    def loop_spec(self, key, k):
        c = self.contracts.get(key)
        if c is None:
            return None
        d = c.loops_decl.get(k)
        if d is None:
            return None
        out = {'modifies': tuple(d.get('modifies', ())), 'elem': d.get('elem', 'bytes'), 'lists': dict(d.get('lists', {})),
               'locals': tuple(d.get('locals', ())), 'abstract': bool(d.get('abstract', False))}
        for n in ('inv', 'variant'):
            f = d.get(n)
            if f is not None:
                a = self.side_ast(f)
                if a is None:
                    raise RuntimeError(f'loop spec {key}#{k}.{n}: not a sidecar function')
                out[n] = a
        return out


def contract(key):
    def deco(cls):
        cls.__contract_key__ = key
        return cls
    return deco

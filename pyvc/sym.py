"""pyvc.sym -- logic sorts, symbolic value classes and the arithmetic / bytes prelude.

Values seen by the executor are either ordinary Python values (then CPython itself performs
every operation on them: "concrete-first") or one of:

  z3 Int / Bool expressions        python int / bool
  SB                               python bytes (possibly partly concrete: segments)
  SStr                             python str (z3 String)
  SF                               python float (uninterpreted sort F)
  SV                               dynamically typed value (z3 datatype Val) -- dict values
  ZList                            list / deque with symbolic length (Array Int -> elem, len)
  HDict                            dict with symbolic key set, three key spaces (bytes/str/int)
  HObj                             instance of a repository class (Tape, Stack, Script, ...)
  SEnum                            finite choice among concrete python values by a symbolic int
"""
from __future__ import annotations
import itertools
import z3

I = z3.IntSort()
B = z3.BoolSort()
BYTE = z3.BitVecSort(8)
BYTES = z3.SeqSort(BYTE)
STR = z3.StringSort()
F = z3.DeclareSort('F')            # python float, uninterpreted (assumption A-F32)
ARR_IB = z3.ArraySort(I, BYTES)

_V = z3.Datatype('Val')
_V.declare('absent')
_V.declare('vnone')
_V.declare('vbool', ('b', B))
_V.declare('vint', ('i', I))
_V.declare('vbytes', ('y', BYTES))
_V.declare('vstr', ('s', STR))
_V.declare('vfloat', ('f', F))
_V.declare('vblist', ('la', ARR_IB), ('ll', I), ('lt', B))   # list (lt false) / tuple (lt true) of bytes
_V.declare('vref', ('r', I))                                 # reference to a heap object
_V.declare('vopq', ('o', I))                                 # anything else (opaque)
VAL = _V.create()
ARR_IV = z3.ArraySort(I, VAL)

_ctr = itertools.count()


def fresh(name, sort):
    return z3.Const(f'{name}!{next(_ctr)}', sort)


def is_z3(v):
    return isinstance(v, z3.ExprRef)


def is_sym_int(v):
    return isinstance(v, z3.ArithRef) and v.sort() == I


def is_sym_bool(v):
    return isinstance(v, z3.BoolRef)


def zint(v):
    """python int / bool / z3 Int -> z3 Int."""
    if isinstance(v, bool):
        return z3.IntVal(1 if v else 0)
    if isinstance(v, int):
        return z3.IntVal(v)
    if is_sym_bool(v):
        return z3.If(v, z3.IntVal(1), z3.IntVal(0))
    return v


def zbool(v):
    if isinstance(v, bool):
        return z3.BoolVal(v)
    return v


def simp(e):
    return z3.simplify(e) if is_z3(e) else e


def concrete_int(e):
    """Return a python int if the z3 Int expression simplifies to a numeral, else None."""
    if isinstance(e, bool):
        return int(e)
    if isinstance(e, int):
        return e
    if is_z3(e):
        s = z3.simplify(e)
        if z3.is_int_value(s):
            return s.as_long()
    return None


def concrete_bool(e):
    if isinstance(e, bool):
        return e
    if is_z3(e):
        s = z3.simplify(e)
        if z3.is_true(s):
            return True
        if z3.is_false(s):
            return False
    return None


# --------------------------------------------------------------------------------------------
# prelude functions (uninterpreted, axiomatised in prelude.py)

pow2 = z3.Function('pow2', I, I)                 # 2**n for n >= 0
ubig = z3.Function('ubig', BYTES, I)             # int.from_bytes(b, 'big')
ulittle = z3.Function('ulittle', BYTES, I)       # int.from_bytes(b, 'little')
tobytes = z3.Function('tobytes', I, I, BYTES)    # n.to_bytes(k, 'big'), 0 <= n < 2**(8k)
bitlen = z3.Function('bitlen', I, I)             # n.bit_length() for n >= 0
flog2 = z3.Function('flog2', I, I)               # floor(log2(n)) as computed by CPython (A-LOG2)
sha256_f = z3.Function('sha256', BYTES, BYTES)
sha512_f = z3.Function('sha512', BYTES, BYTES)
shake256_f = z3.Function('shake256', BYTES, I, BYTES)
utf8dec = z3.Function('utf8dec', BYTES, STR)     # str(b, 'utf-8') when it does not raise
utf8ok = z3.Function('utf8ok', BYTES, B)         # b is valid UTF-8
utf8enc = z3.Function('utf8enc', STR, BYTES)     # bytes(s, 'utf-8')
str_of_int = z3.Function('str_of_int', I, STR)
hex_of = z3.Function('hex_of', BYTES, STR)          # bytes.hex(); only |hex_of(b)| = 2|b| is stated
# floats (uninterpreted; A-F32)
f_unpack = z3.Function('f32_unpack', BYTES, F)   # struct.unpack('!f', b)[0]
f_pack = z3.Function('f32_pack', F, BYTES)       # struct.pack('!f', f) when representable
f_packok = z3.Function('f32_packok', F, B)       # struct.pack does not raise OverflowError
f_isnan = z3.Function('f_isnan', F, B)
f_add = z3.Function('f_add', F, F, F)
f_sub = z3.Function('f_sub', F, F, F)
f_mul = z3.Function('f_mul', F, F, F)
f_div = z3.Function('f_div', F, F, F)
f_mod = z3.Function('f_mod', F, F, F)
f_lt = z3.Function('f_lt', F, F, B)
f_le = z3.Function('f_le', F, F, B)
f_iszero = z3.Function('f_iszero', F, B)
f_ofint = z3.Function('f_ofint', I, F)           # float(int) / 1.0*int  (OverflowError modelled separately)
f_ofint_ok = z3.Function('f_ofint_ok', I, B)
f_toint = z3.Function('f_toint', F, I)           # int(float)
f_toint_ok = z3.Function('f_toint_ok', F, B)     # not inf / nan
f_const = z3.Function('f_const', I, F)           # named float literal (index into a table)
token_f = z3.Function('token_bytes', I, I, BYTES)  # (call ordinal, size) -> fresh bytes


# --------------------------------------------------------------------------------------------
class Seg:
    """A symbolic segment of a byte string with a (possibly symbolic) length."""
    __slots__ = ('e', 'n')

    def __init__(self, e, n=None):
        self.e = e
        if n is None:
            n = z3.Length(e)
        self.n = n

    def __repr__(self):
        return f'Seg({self.e}, {self.n})'


def unit_bytes(b: bytes):
    if len(b) == 0:
        return z3.Empty(BYTES)
    us = [z3.Unit(z3.BitVecVal(x, 8)) for x in b]
    return us[0] if len(us) == 1 else z3.Concat(*us)


class SB:
    """Bytes value with symbolic content: a sequence of concrete and symbolic segments."""
    __slots__ = ('segs', '_e')

    def __init__(self, segs):
        self.segs = tuple(segs)
        self._e = None

    def __repr__(self):
        return 'SB(' + ', '.join(repr(s) for s in self.segs) + ')'

    @property
    def e(self):
        if self._e is None:
            parts = [unit_bytes(s) if isinstance(s, bytes) else s.e for s in self.segs]
            self._e = parts[0] if len(parts) == 1 else z3.Concat(*parts)
        return self._e

    def length(self):
        tot = 0
        sym = []
        for s in self.segs:
            if isinstance(s, bytes):
                tot += len(s)
            elif isinstance(s.n, int):
                tot += s.n
            else:
                sym.append(s.n)
        if not sym:
            return tot
        e = sym[0]
        for x in sym[1:]:
            e = e + x
        return e + tot if tot else e


def mkbytes(segs):
    """Normalise a list of segments; returns python bytes if fully concrete, else SB."""
    out = []
    for s in segs:
        if isinstance(s, SB):
            parts = s.segs
        else:
            parts = (s,)
        for p in parts:
            if isinstance(p, (bytes, bytearray)):
                p = bytes(p)
                if len(p) == 0:
                    continue
                if out and isinstance(out[-1], bytes):
                    out[-1] = out[-1] + p
                else:
                    out.append(p)
            else:
                if isinstance(p.n, int) and p.n == 0:
                    continue
                out.append(p)
    if not out:
        return b''
    if len(out) == 1 and isinstance(out[0], bytes):
        return out[0]
    return SB(out)


def sym_bytes(e, n=None):
    """Wrap a z3 Seq(BV8) expression as a bytes value (n: known length if any)."""
    return mkbytes([Seg(e, n)])


def is_bytes(v):
    return isinstance(v, (bytes, SB))


def bexpr(v):
    """bytes / SB -> z3 Seq expression."""
    if isinstance(v, (bytes, bytearray)):
        return unit_bytes(bytes(v))
    if isinstance(v, SB):
        return v.e
    raise TypeError(f'not a bytes value: {v!r}')


def blen(v):
    if isinstance(v, (bytes, bytearray)):
        return len(v)
    return v.length()


def bconcat(a, b):
    return mkbytes([a, b])


def _seg_len_concrete(s):
    if isinstance(s, bytes):
        return len(s)
    return s.n if isinstance(s.n, int) else None


def bslice_concrete(v, lo, hi):
    """Slice with concrete, already clamped bounds 0 <= lo <= hi; returns None if the needed
    prefix of segments does not have concrete lengths."""
    if isinstance(v, bytes):
        return v[lo:hi]
    out = []
    pos = 0
    for s in v.segs:
        if pos >= hi:
            break
        n = _seg_len_concrete(s)
        if n is None:
            return None
        a, b = max(lo, pos), min(hi, pos + n)
        if a < b:
            if isinstance(s, bytes):
                out.append(s[a - pos:b - pos])
            elif a == pos and b == pos + n:
                out.append(s)
            else:
                out.append(Seg(z3.SubSeq(s.e, z3.IntVal(a - pos), z3.IntVal(b - a)), b - a))
        pos += n
    if pos < hi:
        return None   # slice reaches beyond the concrete-length prefix; caller decides
    return mkbytes(out)


def total_len_concrete(v):
    if isinstance(v, bytes):
        return len(v)
    n = v.length()
    return n if isinstance(n, int) else None


# --------------------------------------------------------------------------------------------
class SStr:
    __slots__ = ('e',)

    def __init__(self, e):
        self.e = e

    def __repr__(self):
        return f'SStr({self.e})'


def sexpr(v):
    if isinstance(v, str):
        return z3.StringVal(v)
    return v.e


class SF:
    __slots__ = ('e',)

    def __init__(self, e):
        self.e = e

    def __repr__(self):
        return f'SF({self.e})'


_float_table: list = []


def fexpr(v):
    if isinstance(v, SF):
        return v.e
    if isinstance(v, float):
        # literals are identified by position in a table; equal python floats share an index
        for i, x in enumerate(_float_table):
            if repr(x) == repr(v):
                return f_const(z3.IntVal(i))
        _float_table.append(v)
        return f_const(z3.IntVal(len(_float_table) - 1))
    raise TypeError(f'not a float value: {v!r}')


class SV:
    """Dynamically typed symbolic value (z3 Val).  hint: what a heap reference in it points to."""
    __slots__ = ('e', 'hint', 'origin')

    def __init__(self, e, hint=None, origin=None):
        self.e = e
        self.hint = hint
        self.origin = origin      # the dict it was read from (owner of the objects its references denote)

    def __repr__(self):
        return f'SV({self.e})'


class SEnum:
    """One of finitely many concrete python values, selected by a symbolic int `idx`."""
    __slots__ = ('idx', 'table')

    def __init__(self, idx, table):
        self.idx = idx
        self.table = table   # dict int -> python value


class ZList:
    """list / deque.  elem: 'bytes' or 'val'.
    Two modes: symbolic (Array Int -> elem, symbolic length) and concrete-length (`items`: a python
    list of values, used while every operation on it has concrete positions -- lemma mode -- so that
    the segment structure of byte strings survives a trip through the stack).  Reading .arr / .ln
    derives the symbolic view; assigning them switches to symbolic mode."""
    _ids = itertools.count(1)

    def __init__(self, elem, arr=None, ln=None, kind='list', maxlen=None, items=None):
        self.elem = elem
        self._sort = ARR_IB if elem == 'bytes' else ARR_IV
        self.items = items
        if items is None:
            self._arr = arr if arr is not None else fresh('arr', self._sort)
            self._ln = ln if ln is not None else fresh('len', I)
        else:
            self._arr = self._ln = None
        self.kind = kind         # 'list' | 'deque' | 'tuple'
        self.maxlen = maxlen
        self.oid = next(ZList._ids)

    def _derive(self):
        if self.elem != 'bytes':
            raise TypeError('concrete-length list of non-bytes values has no array view')
        arr = z3.K(I, z3.Empty(BYTES))
        for i, x in enumerate(self.items):
            arr = z3.Store(arr, i, bexpr(x))
        return arr

    @property
    def arr(self):
        if self.items is not None:
            return self._derive()
        return self._arr

    @arr.setter
    def arr(self, v):
        if self.items is not None:
            self._ln = len(self.items)
            self.items = None
        self._arr = v

    @property
    def ln(self):
        if self.items is not None:
            return len(self.items)
        return self._ln

    @ln.setter
    def ln(self, v):
        if self.items is not None:
            self._arr = self._derive()
            self.items = None
        self._ln = v

    def __repr__(self):
        return f'ZList#{self.oid}({self.kind},{self.elem},len={self.ln})'


class HDict:
    """dict with a symbolic key set; keys of three python types live in three arrays.
    A key is present iff its value is not `absent`."""
    _ids = itertools.count(1)
    SPACES = {'b': BYTES, 's': STR, 'i': I}

    def __init__(self, name='d', maps=None):
        self.oid = next(HDict._ids)
        self.name = name
        if maps is None:
            maps = {k: fresh(f'{name}_{k}', z3.ArraySort(s, VAL)) for k, s in HDict.SPACES.items()}
        self.maps = dict(maps)
        self.refs = {}        # python-side table: z3 ref id (int) -> heap object, for vref values
        self.valtype = None   # what reference values point to: 'Tape' | 'list' | 'opaque' | None

    def __repr__(self):
        return f'HDict#{self.oid}({self.name})'


class HObj:
    """Instance of a repository class."""
    _ids = itertools.count(1000)

    def __init__(self, cls, fields=None, oid=None):
        self.cls = cls                  # the live python class
        self.f = dict(fields or {})
        self.oid = oid if oid is not None else next(HObj._ids)   # python int or z3 Int (unknown object)

    def __repr__(self):
        return f'<{self.cls.__name__}#{self.oid}>'


class HByteArray:
    """bytearray: mutable wrapper around a bytes value."""

    def __init__(self, v):
        self.v = v


class SymSet:
    """set() whose elements may be symbolic: kept as the list of added elements."""

    def __init__(self, items=()):
        self.items = list(items)


class Opaque:
    """A value the engine knows nothing about except identity (embedder objects, callables)."""
    _ids = itertools.count(1)

    def __init__(self, name, oid=None):
        self.name = name
        self.oid = oid if oid is not None else next(Opaque._ids)

    def __repr__(self):
        return f'Opaque({self.name}#{self.oid})'

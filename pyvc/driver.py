"""pyvc.driver -- runs the check of one property: verifies every function of the property's cone,
selects the obligations that belong to the property, applies known findings, writes evidence and
replay files, and maps the result to the exit code (0 held / 1 violation / 2 undecided / 3 fault)."""
from __future__ import annotations
import hashlib
import importlib
import json
import os
import re
import sys
import time
import traceback
from multiprocessing import get_context

ROOT = os.path.dirname(os.path.dirname(os.path.abspath(__file__)))
OUT = os.environ.get('VERIF_OUT', ROOT)      # where evidence / replays go (runs against a scratch tree set it)
_STATE = {}


def _init():
    if 'src' not in _STATE:
        from . import loader, contracts, vocab_sym, crypto  # noqa: F401
        src = loader.source()
        reg = contracts.Registry(src)
        _STATE['src'], _STATE['reg'] = src, reg
    return _STATE['src'], _STATE['reg']


def _verify_one(args):
    key, opts = args
    from . import verify
    src, reg = _init()
    try:
        r = verify.verify_function(src, reg, key, opts)
        return r.to_json()
    except BaseException as ex:  # noqa: BLE001
        return {'key': key, 'error': f'{type(ex).__name__}: {ex}\n{traceback.format_exc()}', 'obligations': [],
                'paths': 0, 'cut_paths': 0, 'undecided': None, 'vacuous': [], 'time_s': 0, 'contracts_used': [],
                'outcomes': {}}


def verify_functions(keys, opts, procs=16):
    src, reg = _init()
    keys = list(keys)
    # longest first (rough guess: previous timings are not kept; control ops and signature ops are slow)
    slow = ('OP_CHECK_SIG', 'OP_SIGN', 'OP_TAPROOT', 'OP_MERKLEVAL', 'OP_MAKE_ADAPTER', 'OP_CALL', 'run_auth_scripts',
            'OP_CHECK_TRANSFER', 'OP_IF_ELSE', 'OP_TRY_EXCEPT')
    keys.sort(key=lambda k: (0 if any(s in k for s in slow) else 1, k))
    if procs <= 1 or len(keys) <= 1:
        return [_verify_one((k, opts)) for k in keys]
    ctx = get_context('fork')
    budget = opts.get('fn_budget_s', 600)
    out = []
    with ctx.Pool(min(procs, len(keys)), maxtasksperchild=1) as p:
        pending = [(k, p.apply_async(_verify_one, ((k, opts),))) for k in keys]
        t_end = time.time() + budget + 60
        for k, ar in pending:
            try:
                out.append(ar.get(timeout=max(1, t_end - time.time())))
            except Exception as ex:  # noqa: BLE001  (multiprocessing.TimeoutError)
                out.append({'key': k, 'error': None, 'obligations': [], 'paths': 0, 'cut_paths': 0,
                            'undecided': f'verification of this function exceeded the budget ({type(ex).__name__})',
                            'vacuous': [], 'time_s': budget, 'contracts_used': [], 'outcomes': {}})
        p.terminate()
    return out


def load_known():
    p = os.path.join(ROOT, 'known_findings.json')
    if not os.path.exists(p):
        return []
    with open(p) as f:
        return json.load(f)['findings']


def run_witness(spec):
    """'module:function' under /verif -> bool (True: the defect still reproduces on the current tree).
    Runs in a subprocess with a watchdog (non-termination and runaway allocation are outcomes)."""
    import subprocess
    mod, fn = spec.split(':')
    code = (f'import sys; sys.path.insert(0, {ROOT!r}); sys.path.insert(0, {os.environ.get("VERIF_REPO", "/repo")!r});'
            f'import resource; resource.setrlimit(resource.RLIMIT_AS, (3 << 30, 3 << 30));'
            f'import importlib; m = importlib.import_module({mod!r}); r = getattr(m, {fn!r})(); '
            f'print("WITNESS", "REPRODUCES" if r else "GONE")')
    try:
        p = subprocess.run([sys.executable, '-c', code], capture_output=True, text=True, timeout=60)
        out = p.stdout + p.stderr
        if 'WITNESS REPRODUCES' in out:
            return True, out[-400:]
        if 'WITNESS GONE' in out:
            return False, out[-400:]
        return None, out[-800:]
    except subprocess.TimeoutExpired:
        return None, 'witness timed out'


class _Baseline:
    """obligation names discharged on the pinned tree.  `name in baseline`: the obligation itself, or its
    family (the same check of the same function: the name up to its last component) passed there."""

    def __init__(self, names=()):
        self.names = set(names)
        self.families = {n.rsplit('/', 1)[0] for n in self.names}

    def __contains__(self, name):
        return name in self.names or name.rsplit('/', 1)[0] in self.families

    def __bool__(self):
        return bool(self.names)


def _repo_head():
    import subprocess
    try:
        return subprocess.run(['git', '-C', os.environ.get('VERIF_REPO', '/repo'), 'rev-parse', '--short', 'HEAD'],
                              capture_output=True, text=True, timeout=10).stdout.strip()
    except Exception:  # noqa: BLE001
        return ''


def source_hashes(src):
    return {m: h[:16] for m, h in src.file_hash.items()}


def sidecar_scan():
    """mechanical scan of the sidecar for assumptions: trusted contracts, assumed hooks"""
    src, reg = _init()
    out = []
    for k, c in sorted(reg.contracts.items()):
        if c.trusted:
            out.append(f'trusted contract (assumed, not verified): {k}')
    return out


def check_property(prop, tier, seed, spec):
    """spec: dict from props.registry.PROPS[prop]"""
    t0 = time.time()
    src, reg = _init()
    # obligations that open known findings (of any property) already account for get one short solver
    # attempt only: they are expected not to be discharged, and the full ladder (z3, cvc5, z3 again)
    # on a satisfiable string query costs minutes
    cheap = [p_ for f_ in load_known() if f_.get('status') == 'open' for p_ in f_['obligations']]
    opts = {'timeout_ms': 40000 if tier == 'quick' else 120000, 'cvc5': True, 'cheap': cheap,
            'fn_budget_s': 900 if tier == 'quick' else 3000,
            'dump_dir': os.path.join(OUT, 'replays', prop, 'smt2')}
    keys = [k for k in spec['functions'] if k in reg.contracts and not reg.contracts[k].trusted]
    if os.environ.get('VERIF_ONLY'):      # developer aid (not used by registered commands): restrict the cone
        keys = [k for k in keys if re.search(os.environ['VERIF_ONLY'], k)]
    missing = [k for k in spec['functions'] if k not in reg.contracts]
    results = verify_functions(keys, opts)
    sel = [re.compile(p) for p in spec.get('select', ['.'])]
    rej = [re.compile(p) for p in spec.get('reject', [])]

    def mine(name):
        return any(p.search(name) for p in sel) and not any(p.search(name) for p in rej)

    obligations, failed, undecided, faults, vacuity = [], [], [], [], []
    per_fn = {}
    backends = {}
    solver_time = 0.0
    for r in results:
        k = r['key']
        if r.get('error'):
            faults.append((k, r['error']))
        if r.get('undecided'):
            undecided.append((k, r['undecided']))
        if r.get('vacuous'):
            vacuity.append((k, f'requires unsatisfiable in cases {r["vacuous"]}'))
        outs = r.get('outcomes', {})
        if not r.get('error') and not r.get('undecided') and not any(o == 'return' for o in outs) and \
                k not in spec.get('never_returns', ()):
            vacuity.append((k, f'no path returns normally (outcomes {outs})'))
        n_all = len(r['obligations'])
        n_mine = 0
        for o in r['obligations']:
            solver_time += o.get('time_s', 0)
            if not mine(o['name']):
                continue
            n_mine += 1
            obligations.append(o)
            backends[o.get('backend', '?')] = backends.get(o.get('backend', '?'), 0) + 1
            if o['status'] != 'discharged':
                failed.append(o)
        per_fn[k] = {'paths': r['paths'], 'cut_paths': r['cut_paths'], 'obligations_total': n_all,
                     'obligations_of_this_property': n_mine, 'time_s': r['time_s'], 'outcomes': outs,
                     'body_hash': src.body_hash(k) if k in src.funcs else None}
        if n_all == 0 and not r.get('error') and not r.get('undecided'):
            vacuity.append((k, 'zero obligations generated'))
    # ---- extra checks (lemmas, bounded stand-ins, table invariants): python callables
    extra_results = []
    for modfn in spec.get('extra', []):
        mod, fn = modfn.split(':')
        try:
            m = importlib.import_module(mod)
            extra_results.append(getattr(m, fn)(tier=tier, seed=seed))
        except BaseException as ex:  # noqa: BLE001
            faults.append((modfn, f'{type(ex).__name__}: {ex}\n{traceback.format_exc()}'))
    for er in extra_results:
        for o in er.get('obligations', []):
            obligations.append(o)
            backends[o.get('backend', '?')] = backends.get(o.get('backend', '?'), 0) + 1
            if o['status'] != 'discharged':
                failed.append(o)
        for u in er.get('undecided', []):
            undecided.append(u)
    # ---- known findings
    known = [f for f in load_known() if f['property'] == prop and f.get('status') == 'open']
    covered, kf_lines, kf_evidence = set(), [], []
    for f in known:
        rep, out = run_witness(f['witness']) if f.get('witness') else (True, '')
        pats = [re.compile(p) for p in f['obligations']]
        hit = [o for o in failed if any(p.search(o['name']) for p in pats)]
        if rep:
            for o in hit:
                covered.add(id(o))
            kf_lines.append(f"KNOWN-FINDING: property={prop} {f['id']}: {f['what']}")
        elif rep is None:
            faults.append((f['id'], f'witness did not run: {out}'))
        kf_evidence.append({'id': f['id'], 'what': f['what'], 'witness_reproduces': rep,
                            'obligations_covered': sorted({o['name'] for o in hit})})
    # refuted obligations are violations.  An obligation the solvers leave `unknown` is a violation only
    # if it is a REGRESSION: its name is in the committed baseline of obligations discharged on the pinned
    # tree (baseline/<prop>.json, written by `VERIF_WRITE_BASELINE=1 ./check <prop>`, never at check time) --
    # "an obligation that passed on the unchanged tree and now fails, with the solver's reason attached";
    # it is reported `no-failing-input-found`.  Any other `unknown` is UNDECIDED (exit 2).
    base_path = os.path.join(ROOT, 'baseline', f'{prop}.json')
    baseline = _Baseline()
    if os.path.exists(base_path) and not os.environ.get('VERIF_WRITE_BASELINE'):
        with open(base_path) as f_:
            bj = json.load(f_)
        baseline = _Baseline(set(bj['discharged']) | set(bj.get('cone', ())))
    confirmed_names = set()
    if any(o['status'] == 'unknown' and o.get('inputs') and id(o) not in covered for o in failed):
        # candidate counter-models of `unknown` obligations: a violation if the real code confirms one
        from . import replay as _rp
        tried = set()
        for o in failed:
            if o['status'] == 'unknown' and o.get('inputs') and id(o) not in covered and o['name'] not in tried \
                    and len(tried) < 8:
                tried.add(o['name'])
                try:
                    if _rp.native_replay(o['name'].split('/')[0], o['inputs']).get('confirmed'):
                        confirmed_names.add(o['name'])
                except Exception:  # noqa: BLE001
                    pass
    violations = [o for o in failed if id(o) not in covered
                  and (o['status'] != 'unknown' or o['name'] in baseline or o['name'] in confirmed_names)]
    for o in failed:
        if id(o) not in covered and o['status'] == 'unknown' and o['name'] not in baseline \
                and o['name'] not in confirmed_names:
            if not any(u[0] == o['name'] for u in undecided):
                undecided.append((o['name'], f"solver answered unknown ({o.get('backend')}, path {str(o.get('path'))[-24:]})"))
    if os.environ.get('VERIF_WRITE_BASELINE') and not os.environ.get('VERIF_REPO'):
        bad_names = {o['name'] for o in failed}
        names = sorted({o['name'] for o in obligations if o['name'] not in bad_names})
        # every obligation name of the cone (also those another property selects): an obligation that
        # appears only when two values stop being syntactically identical has no name of its own on the
        # pinned tree, but its family (same function / same check) has
        cone_names = sorted({o['name'] for r in results for o in r['obligations'] if o['status'] == 'discharged'}
                            - set(names))
        os.makedirs(os.path.join(ROOT, 'baseline'), exist_ok=True)
        with open(base_path, 'w') as f_:
            json.dump({'property': prop, 'repo_head': _repo_head(), 'tier': tier, 'discharged': names,
                       'cone': cone_names}, f_, indent=0)
    # ---- replay files
    vio_lines = []
    if violations:
        from . import replay
        byname = {}
        for o in violations:
            byname.setdefault(o['name'], []).append(o)
        for name, os_ in sorted(byname.items()):
            path, confirmed = replay.write_replay(prop, name, os_, spec)
            tail = '' if confirmed else ' no-failing-input-found'
            vio_lines.append(f'VIOLATION property={prop} replay={path}{tail}')
    # ---- evidence
    wall = time.time() - t0
    # bounded stand-ins and template validations are checked and can fail the run, but they are never
    # counted among the obligations proved: they are reported separately (coverage.bounded_checks)
    def is_bounded(o):
        return o.get('kind') in ('bounded', 'template') or str(o.get('backend', '')).startswith('native')
    proved = [o for o in obligations if not is_bounded(o)]
    n_ob = len(proved) - sum(1 for o in failed if id(o) in covered and not is_bounded(o))
    n_dis = len(proved) - sum(1 for o in failed if not is_bounded(o))
    bounded_checks = [{'name': o['name'], 'status': 'passed' if o['status'] == 'discharged' else o['status'],
                       'counted_as_proved': False} for o in obligations if is_bounded(o)]
    samples = []
    for o in obligations[:: max(1, len(obligations) // 12)][:12]:
        samples.append({'obligation': o['name'], 'path': o.get('path', ''), 'status': o['status'],
                        'backend': o.get('backend'), 'time_s': o.get('time_s')})
    trusted = sorted(set(spec.get('trusted_base', [])) | set(sidecar_scan()))
    ev = {
        'property_id': prop, 'tier': tier, 'seed': seed, 'level': spec.get('level', 'proof'),
        'coverage': {
            'obligations': n_ob, 'discharged': n_dis,
            'checker_cmd': f'./check {prop} --tier {tier}',
            'trusted_base': trusted,
            'samples': samples,
            'functions_under_contract': per_fn,
            'functions_missing_contract': missing,
            'backends': backends, 'solver_time_s': round(solver_time, 2),
            'known_findings': kf_evidence,
            'undecided': [{'function': k, 'reason': why} for k, why in undecided],
            'vacuity_guards': {'anomalies': [{'function': k, 'what': w} for k, w in vacuity],
                               'rule': 'every function generates obligations, has a satisfiable precondition and '
                                       'at least one normally returning path'},
            'bounded': [er.get('bounded') for er in extra_results if er.get('bounded')],
            'bounded_checks': bounded_checks,
            'lemmas': [er.get('summary') for er in extra_results if er.get('summary')],
            'source_hashes': source_hashes(src),
            'explanation': spec.get('explanation', ''),
        },
        'assumptions': spec.get('assumptions', []),
        'wall_s': round(wall, 2),
        'violations': len(vio_lines),
    }
    os.makedirs(os.path.join(OUT, 'evidence'), exist_ok=True)
    with open(os.path.join(OUT, 'evidence', f'{prop}.json'), 'w') as f:
        json.dump(ev, f, indent=1, default=str)
    # ---- verdict
    for line in kf_lines:
        print(line)
    print(f'{prop}: functions={len(keys)} obligations={len(proved)} discharged={n_dis} '
          f'bounded-checks={len(bounded_checks)}(passed={sum(1 for b in bounded_checks if b["status"] == "passed")}) '
          f'known-finding-obligations={sum(1 for o in failed if id(o) in covered)} violations={len(violations)} '
          f'undecided={len(undecided)} wall={wall:.1f}s')
    if faults:
        for k, e in faults:
            print(f'CHECKER-FAULT {k}: {e[-600:]}')
        return 3
    if vio_lines:
        for line in vio_lines:
            print(line)
        return 1
    if vacuity:
        for k, w in vacuity:
            print(f'CHECKER-FAULT vacuity guard: {k}: {w}')
        return 3
    if undecided:
        for k, w in undecided:
            print(f'UNDECIDED {k}: {w}')
        return 2
    return 0

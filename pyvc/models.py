"""pyvc.models -- semantics of python primitives on symbolic values.

Each model states its raise conditions as path forks (an exception is an outcome).  Anything not
modelled raises Unsupported.  Operations whose operands are all concrete never get here: CPython
performs them.
"""
from __future__ import annotations
import builtins
import collections
import dataclasses
import hashlib
import math
import struct
import time as _time
import types
import warnings
import z3
from . import sym
from .sym import (SB, SStr, SF, SV, SEnum, ZList, HDict, HObj, HByteArray, SymSet, Opaque, VAL, I, BYTES, STR,
                  is_z3, is_sym_int, is_sym_bool, zint, zbool, fresh, mkbytes, sym_bytes, is_bytes, bexpr, blen, Seg)
from .interp import (Unsupported, PyRaise, PyExcVal, _MISSING, _Method, _SymRange, _ItemsView, AstFunc, BoundMethod,
                     is_concrete, type_of, Env, PathAbort)


class SRat:
    _symbolic = True
    """exact rational num/den (den > 0 python int) produced by int / int; only ceil/floor consume it."""

    def __init__(self, num, den):
        self.num, self.den = num, den


class SLog2:
    _symbolic = True
    """log2(n) of a symbolic positive int; only floor() consumes it."""

    def __init__(self, n):
        self.n = n


class HashObj:
    _symbolic = True
    def __init__(self, algo, data):
        self.algo, self.data = algo, data


def isint(v):
    return (isinstance(v, int)) or is_sym_int(v) or is_sym_bool(v)


def native_ok(fn):
    mod = getattr(fn, '__module__', None) or ''
    if mod.startswith('tapescript'):
        return False
    return True


def raise_(cls, *args):
    raise PyRaise(cls, PyExcVal(cls, args))


def mk_pow2(ip, e):
    """2**e as a term with ground instances of the pow2 laws relative to the other pow2 terms of this
    path (no quantified axioms needed): positivity, exact ratio when the exponents differ by a
    constant, monotonicity otherwise, anchors at small constants."""
    e = zint(e)
    c = sym.concrete_int(e)
    if c is not None and c >= 0:
        return z3.IntVal(1 << c)
    es = z3.simplify(e)
    terms = ip.ctx.ghost.setdefault('pow2_terms', [])
    for e2, t2 in terms:
        if e2.eq(es):
            return t2
    t = sym.pow2(es)
    A = ip.ctx.define
    A(z3.Implies(es >= 0, t >= 1))
    for cst in (0, 1, 7, 8, 15, 16, 31, 32, 63, 64):
        A(z3.Implies(es >= cst, t >= (1 << cst)))
        A(z3.Implies(es == cst, t == (1 << cst)))
    for e2, t2 in terms:
        d = z3.simplify(es - e2)
        if z3.is_int_value(d):
            k = d.as_long()
            if k >= 0:
                A(z3.Implies(e2 >= 0, t == (1 << k) * t2))
            else:
                A(z3.Implies(es >= 0, t2 == (1 << -k) * t))
        else:
            A(z3.Implies(z3.And(0 <= es, es <= e2), t <= t2))
            A(z3.Implies(z3.And(0 <= e2, e2 <= es), t2 <= t))
            A(z3.Implies(z3.And(0 <= es, es < e2), 2 * t <= t2))
            A(z3.Implies(z3.And(0 <= e2, e2 < es), 2 * t2 <= t))
    terms.append((es, t))
    return t


def mk_bitlen(ip, n):
    n = zint(n)
    t = sym.bitlen(n)
    seen = ip.ctx.ghost.setdefault('bitlen_terms', [])
    if any(x.eq(t) for x in seen):
        return t
    seen.append(t)
    ip.ctx.define(z3.Implies(n == 0, t == 0))
    ip.ctx.define(z3.Implies(n > 0, t >= 1))
    lo, hi = mk_pow2(ip, t - 1), mk_pow2(ip, t)
    ip.ctx.define(z3.Implies(n > 0, z3.And(lo <= n, n < hi)))
    return t


def mk_flog2(ip, n):
    """floor(log2(n)) as CPython computes it through a double: ASSUMED (A-LOG2) never below
    bitlen(n)-1 and over by at most one."""
    n = zint(n)
    t = sym.flog2(n)
    b = mk_bitlen(ip, n)
    ip.ctx.define(z3.Implies(n > 0, z3.And(t >= b - 1, t <= b)))
    ip.ctx.ghost.setdefault('assumptions', set()).add('A-LOG2')
    return t


def pydiv(a, b):
    a, b = zint(a), zint(b)
    q, r = a / b, a % b
    return z3.If(b > 0, q, z3.If(r == 0, q, q - 1))


def pymod(a, b):
    a, b = zint(a), zint(b)
    r = a % b
    return z3.If(b > 0, r, z3.If(r == 0, r, r + b))


def _is_bv2int(e):
    return is_z3(e) and z3.is_app(e) and e.decl().kind() == z3.Z3_OP_BV2INT


def bv_form(v):
    """if the int value is syntactically an unsigned bit-vector value (BV2Int(x), a small numeral, or an
    if-then-else of those) return that bit-vector, else None"""
    if isinstance(v, bool):
        return None
    if isinstance(v, int):
        return z3.BitVecVal(v, 8) if 0 <= v < 256 else None
    if not sym.is_sym_int(v):
        return None
    s = z3.simplify(v)
    if _is_bv2int(s):
        return s.arg(0)
    if z3.is_int_value(s):
        n = s.as_long()
        return z3.BitVecVal(n, 8) if 0 <= n < 256 else None
    if z3.is_app(s) and s.decl().kind() == z3.Z3_OP_ITE:
        a, b = bv_form(s.arg(1)), bv_form(s.arg(2))
        if a is not None and b is not None:
            w = max(a.size(), b.size())
            a = z3.ZeroExt(w - a.size(), a) if a.size() < w else a
            b = z3.ZeroExt(w - b.size(), b) if b.size() < w else b
            return z3.If(s.arg(0), a, b)
    return None


def bv_compare(op, a, b):
    """comparison of two ints that both have bit-vector forms, stated over bit-vectors"""
    x, y = bv_form(a), bv_form(b)
    if x is None or y is None:
        return None
    if isinstance(a, int) and not (0 <= a < (1 << y.size())):
        return None
    if isinstance(b, int) and not (0 <= b < (1 << x.size())):
        return None
    w = max(x.size(), y.size())
    x = z3.ZeroExt(w - x.size(), x) if x.size() < w else x
    y = z3.ZeroExt(w - y.size(), y) if y.size() < w else y
    return {'Eq': lambda: x == y, 'NotEq': lambda: x != y, 'Lt': lambda: z3.ULT(x, y), 'LtE': lambda: z3.ULE(x, y),
            'Gt': lambda: z3.UGT(x, y), 'GtE': lambda: z3.UGE(x, y)}[op]()


def _as_bv(v, w):
    """int value -> BitVec(w) holding v mod 2**w."""
    if isinstance(v, int):
        return z3.BitVecVal(v % (1 << w), w)
    v = zint(v)
    s = z3.simplify(v)
    if _is_bv2int(s) and s.arg(0).size() == w:
        return s.arg(0)
    if _is_bv2int(s) and s.arg(0).size() < w:
        return z3.ZeroExt(w - s.arg(0).size(), s.arg(0))
    f = bv_form(s)
    if f is not None and f.size() <= w:
        return z3.ZeroExt(w - f.size(), f) if f.size() < w else f
    return z3.Int2BV(v, w)


def _known_width(ip, v):
    """smallest w in (8, 16, 32, 64) with 0 <= v < 2**w provable, else None"""
    if isinstance(v, int):
        return None if v < 0 else max(8, ((v.bit_length() + 7) // 8) * 8)
    s = z3.simplify(zint(v))
    if _is_bv2int(s):
        return s.arg(0).size()
    if z3.is_int_value(s):
        return _known_width(ip, s.as_long())
    if z3.is_app(s) and s.decl().kind() == z3.Z3_OP_ITE:
        wa, wb = _known_width(ip, s.arg(1)), _known_width(ip, s.arg(2))
        if wa is not None and wb is not None:
            return max(wa, wb)
    for w in (8, 16, 32, 64):
        if ip.ctx.valid(z3.And(zint(v) >= 0, zint(v) < (1 << w))):
            return w
    return None


def binop(ip, op, a, b, inplace=False):
    if is_concrete(a) and is_concrete(b):
        try:
            return _NATIVE_BIN[op](a, b)
        except Exception as ex:  # noqa: BLE001
            raise PyRaise(type(ex), PyExcVal(type(ex), ex.args))
    if isinstance(a, HByteArray):
        a = a.v
    if isinstance(b, HByteArray):
        b = b.v
    a, b = senum_str(a), senum_str(b)
    # ---- ints
    if isint(a) and isint(b):
        if op == 'Add':
            return zint(a) + zint(b)
        if op == 'Sub':
            return zint(a) - zint(b)
        if op == 'Mult':
            return int_mul(ip, a, b)
        if op in ('FloorDiv', 'Mod'):
            if not ip.ctx.branch(zint(b) != 0, 'div0'):
                raise_(ZeroDivisionError, 'integer division or modulo by zero')
            return pydiv(a, b) if op == 'FloorDiv' else pymod(a, b)
        if op == 'Div':
            if isinstance(b, int) and b > 0:
                return SRat(zint(a), b)
            raise Unsupported('true division of symbolic ints')
        if op == 'Pow':
            if isinstance(a, int) and a == 2:
                if not ip.ctx.branch(zint(b) >= 0, 'pow>=0'):
                    raise Unsupported('2**negative')
                return mk_pow2(ip, b)
            cb = sym.concrete_int(b)
            if cb is not None and 0 <= cb <= 4:
                r = z3.IntVal(1)
                for _ in range(cb):
                    r = r * zint(a)
                return r
            raise Unsupported('symbolic power')
        if op == 'LShift':
            if not ip.ctx.branch(zint(b) >= 0, 'shift>=0'):
                raise_(ValueError, 'negative shift count')
            return zint(a) * mk_pow2(ip, b)
        if op == 'RShift':
            if not ip.ctx.branch(zint(b) >= 0, 'shift>=0'):
                raise_(ValueError, 'negative shift count')
            p = mk_pow2(ip, b)
            q = zint(a) / p                          # pow2 > 0: floor division
            ip.ctx.define(p >= 1)
            ip.ctx.define(z3.Implies(zint(a) >= 0, z3.And(q >= 0, (q == 0) == (zint(a) < p))))
            return q
        if op in ('BitAnd', 'BitOr', 'BitXor'):
            return bitop(ip, op, a, b)
    # ---- bytes
    if is_bytes(a) and is_bytes(b) and op == 'Add':
        return mkbytes([a, b])
    if is_bytes(a) and isint(b) and op == 'Mult':
        cb = sym.concrete_int(b)
        if cb is not None:
            return mkbytes([a] * max(cb, 0))
    # ---- str
    if isinstance(a, (str, SStr)) and isinstance(b, (str, SStr)) and op == 'Add':
        return str_concat(ip, [a, b])
    # ---- floats
    if isinstance(a, (float, SF)) or isinstance(b, (float, SF)):
        fa, fb = to_float(ip, a), to_float(ip, b)
        if op == 'Add':
            return SF(sym.f_add(fa, fb))
        if op == 'Sub':
            return SF(sym.f_sub(fa, fb))
        if op == 'Mult':
            return SF(sym.f_mul(fa, fb))
        if op in ('Div', 'Mod'):
            if not ip.ctx.branch(z3.Not(sym.f_iszero(fb)), 'fdiv0'):
                raise_(ZeroDivisionError, 'float division by zero')
            return SF(sym.f_div(fa, fb) if op == 'Div' else sym.f_mod(fa, fb))
    # ---- python lists
    if isinstance(a, list) and isinstance(b, list) and op == 'Add':
        return a + b
    if isinstance(a, tuple) and isinstance(b, tuple) and op == 'Add':
        return a + b
    raise Unsupported(f'binary {op} on {type(a).__name__}, {type(b).__name__}')


mul_f = z3.Function('mul', I, I, I)


def int_mul(ip, a, b):
    """product of two ints.  With a numeral factor it is linear arithmetic; the product of two
    symbolic ints is the uninterpreted mul(a, b) with mul(a, b) == a * b stated as a definitional fact
    (so congruence decides data-flow equalities without the nonlinear solver having to)"""
    ca, cb = sym.concrete_int(a), sym.concrete_int(b)
    if ca is not None or cb is not None:
        return zint(a) * zint(b)
    t = mul_f(zint(a), zint(b))
    return t


def to_float(ip, v):
    if isinstance(v, (float, SF)):
        return sym.fexpr(v)
    if isint(v):
        if isinstance(v, int):
            return sym.fexpr(float(v))
        if not ip.ctx.branch(sym.f_ofint_ok(zint(v)), 'int->float'):
            raise_(OverflowError, 'int too large to convert to float')
        return sym.f_ofint(zint(v))
    raise Unsupported('float arithmetic on non-number')


def bitop(ip, op, a, b):
    if op == 'BitAnd' and (isinstance(a, int) or isinstance(b, int)):
        m, x = (a, b) if isinstance(a, int) else (b, a)
        if m >= 0:
            w = max(8, ((m.bit_length() + 7) // 8) * 8)
            return z3.BV2Int(_as_bv(x, w) & z3.BitVecVal(m, w))
    wa, wb = _known_width(ip, a), _known_width(ip, b)
    if op == 'BitAnd' and (wa is not None or wb is not None):
        # x in [0, 2**w): x & y depends on y only modulo 2**w
        w = wa if wb is None else (wb if wa is None else max(wa, wb))
        return z3.BV2Int(_as_bv(a, w) & _as_bv(b, w))
    if wa is None or wb is None:
        raise Unsupported(f'{op} on ints of unknown width')
    w = max(wa, wb)
    x, y = _as_bv(a, w), _as_bv(b, w)
    r = {'BitAnd': x & y, 'BitOr': x | y, 'BitXor': x ^ y}[op]
    return z3.BV2Int(r)


_NATIVE_BIN = {
    'Add': lambda a, b: a + b, 'Sub': lambda a, b: a - b, 'Mult': lambda a, b: a * b,
    'Div': lambda a, b: a / b, 'FloorDiv': lambda a, b: a // b, 'Mod': lambda a, b: a % b,
    'Pow': lambda a, b: a ** b, 'LShift': lambda a, b: a << b, 'RShift': lambda a, b: a >> b,
    'BitAnd': lambda a, b: a & b, 'BitOr': lambda a, b: a | b, 'BitXor': lambda a, b: a ^ b,
    'MatMult': lambda a, b: a @ b,
}


# ------------------------------------------------------------------------------------ compare
def eq(ip, a, b):
    """python == as python bool or z3 Bool."""
    if is_concrete(a) and is_concrete(b):
        return a == b
    if isinstance(a, HByteArray):
        a = a.v
    if isinstance(b, HByteArray):
        b = b.v
    if isint(a) and isint(b):
        if (isinstance(a, bool) or is_sym_bool(a)) and (isinstance(b, bool) or is_sym_bool(b)):
            return zbool(a) == zbool(b)
        r = bv_compare('Eq', a, b)
        if r is not None:
            return r
        return zint(a) == zint(b)
    if is_bytes(a) and is_bytes(b):
        la, lb = blen(a), blen(b)
        if isinstance(la, int) and isinstance(lb, int) and la != lb:
            return False
        return bexpr(a) == bexpr(b)
    if isinstance(a, (str, SStr)) and isinstance(b, (str, SStr)):
        return sym.sexpr(a) == sym.sexpr(b)
    if isinstance(a, (float, SF)) and isinstance(b, (float, SF)):
        return sym.fexpr(a) == sym.fexpr(b)       # note: NaN != NaN is not modelled (A-F32)
    if a is None or b is None:
        return a is b
    if isinstance(a, (tuple, list)) and isinstance(b, (tuple, list)) and type(a) is type(b):
        if len(a) != len(b):
            return False
        cs = [eq(ip, x, y) for x, y in zip(a, b)]
        if any(c is False for c in cs):
            return False
        cs = [zbool(c) for c in cs if c is not True]
        return z3.And(*cs) if cs else True
    if isinstance(a, SEnum) or isinstance(b, SEnum):
        en, other = (a, b) if isinstance(a, SEnum) else (b, a)
        alts = []
        for k, v in en.table.items():
            c_ = eq(ip, v, other)
            if c_ is False:
                continue
            alts.append(zint(en.idx) == k if c_ is True else z3.And(zint(en.idx) == k, zbool(c_)))
        if not alts:
            return False
        return alts[0] if len(alts) == 1 else z3.Or(*alts)
    if isinstance(a, (HObj, HDict, ZList, Opaque)) or isinstance(b, (HObj, HDict, ZList, Opaque)):
        if isinstance(a, Opaque) and isinstance(b, Opaque):
            return zint(a.oid) == zint(b.oid)
        if isinstance(a, ZList) and isinstance(b, ZList):
            raise Unsupported('== on symbolic lists')
        if type(a) is not type(b):
            return False
        if a is b:
            return True
        raise Unsupported(f'== on {type(a).__name__}')
    ta, tb = _tyname(a), _tyname(b)
    if ta != tb:
        return False
    raise Unsupported(f'== on {type(a).__name__}, {type(b).__name__}')


def _tyname(v):
    try:
        return type_of(v)
    except Unsupported:
        return None


def compare(ip, op, a, b):
    if op == 'Eq':
        return eq(ip, a, b)
    if op == 'NotEq':
        r = eq(ip, a, b)
        return (not r) if isinstance(r, bool) else z3.Not(r)
    if op in ('Is', 'IsNot'):
        r = identical(ip, a, b)
        if op == 'IsNot':
            r = (not r) if isinstance(r, bool) else z3.Not(r)
        return r
    if op in ('In', 'NotIn'):
        r = contains(ip, b, a)
        if op == 'NotIn':
            r = (not r) if isinstance(r, bool) else z3.Not(r)
        return r
    if is_concrete(a) and is_concrete(b):
        try:
            return _NATIVE_CMP[op](a, b)
        except Exception as ex:  # noqa: BLE001
            raise PyRaise(type(ex), PyExcVal(type(ex), ex.args))
    if isint(a) and isint(b):
        r = bv_compare(op, a, b)
        if r is not None:
            return r
        x, y = zint(a), zint(b)
        return {'Lt': x < y, 'LtE': x <= y, 'Gt': x > y, 'GtE': x >= y}[op]
    ka, kb = ip._kind(a), ip._kind(b)
    num = ('int', 'bool', 'float')
    if (ka is not None or a is None or isinstance(a, (ZList, list, tuple, Opaque))) and \
            (kb is not None or b is None or isinstance(b, (ZList, list, tuple, Opaque))) and \
            not (ka in num and kb in num) and not (ka == kb and ka in ('bytes', 'str')):
        raise_(TypeError, 'ordering not supported between these types')
    if isinstance(a, (float, SF, int)) and isinstance(b, (float, SF, int)) or \
            ((isinstance(a, (float, SF)) or isinstance(b, (float, SF))) and (isint(a) or isint(b) or True)):
        x, y = to_float(ip, a), to_float(ip, b)
        return {'Lt': sym.f_lt(x, y), 'LtE': sym.f_le(x, y), 'Gt': sym.f_lt(y, x), 'GtE': sym.f_le(y, x)}[op]
    raise Unsupported(f'{op} on {type(a).__name__}, {type(b).__name__}')


_NATIVE_CMP = {'Lt': lambda a, b: a < b, 'LtE': lambda a, b: a <= b, 'Gt': lambda a, b: a > b,
               'GtE': lambda a, b: a >= b}


def identical(ip, a, b):
    if isinstance(a, type) or isinstance(b, type) or a is None or b is None:
        return a is b
    if isinstance(a, (bool,)) and isinstance(b, bool):
        return a is b
    if isinstance(a, (HObj, HDict, ZList, list, dict, AstFunc)) or isinstance(b, (HObj, HDict, ZList, list, dict,
                                                                                   AstFunc)):
        if isinstance(a, HObj) and isinstance(b, HObj) and not (isinstance(a.oid, int) and isinstance(b.oid, int)):
            return zint(a.oid) == zint(b.oid)
        return a is b
    if isinstance(a, Opaque) and isinstance(b, Opaque):
        return zint(a.oid) == zint(b.oid)
    if is_concrete(a) and is_concrete(b):
        return a is b
    raise Unsupported(f'`is` on {type(a).__name__}, {type(b).__name__}')


def contains(ip, container, x):
    container = ip.resolve(container)
    x = ip.resolve(x)
    if is_concrete(container) and is_concrete(x):
        try:
            return x in container
        except Exception as ex:  # noqa: BLE001
            raise PyRaise(type(ex), PyExcVal(type(ex), ex.args))
    if isinstance(container, HDict):
        return hdict_has(ip, container, x)
    if isinstance(container, dict):
        container = list(container.keys())
    if isinstance(container, (tuple, list, set, frozenset)):
        cs = []
        for y in container:
            c = eq(ip, x, y)
            if c is True:
                return True
            if c is not False:
                cs.append(zbool(c))
        return z3.Or(*cs) if cs else False
    if isinstance(container, SymSet):
        return contains(ip, tuple(container.items), x)
    if isinstance(container, ZList):
        j = fresh('j', I)
        ex_ = z3.Exists([j], z3.And(j >= 0, j < zint(container.ln),
                                    z3.Select(container.arr, j) == (bexpr(x) if container.elem == 'bytes' else ip.to_val(x))))
        return ex_
    if isinstance(container, (str, SStr)) and isinstance(x, (str, SStr)):
        return z3.Contains(sym.sexpr(container), sym.sexpr(x))
    if is_bytes(container):
        raise Unsupported('`in` on symbolic bytes')
    raise Unsupported(f'`in` on {type(container).__name__}')


# -------------------------------------------------------------------------------------- dicts
def key_space(ip, k):
    k = ip.resolve(k)
    if is_bytes(k):
        return 'b', bexpr(k)
    if isinstance(k, (str, SStr)):
        return 's', sym.sexpr(k)
    if isinstance(k, bool) or is_sym_bool(k):
        return 'i', zint(k)
    if isinstance(k, int) or is_sym_int(k):
        return 'i', zint(k)
    return None, None


def hdict_has(ip, d, k):
    sp, ke = key_space(ip, k)
    if sp is None:
        return False
    return z3.Select(d.maps[sp], ke) != VAL.absent


def hdict_get(ip, d, k):
    sp, ke = key_space(ip, k)
    if sp is None:
        raise_(KeyError, 'key')
    v = z3.Select(d.maps[sp], ke)
    if not ip.ctx.branch(v != VAL.absent, 'key?'):
        raise_(KeyError, 'key')
    return SV(v, d.valtype, d)


def hdict_set(ip, d, k, v):
    sp, ke = key_space(ip, k)
    if sp is None:
        raise Unsupported('dict key of unmodelled type')
    d.maps[sp] = z3.Store(d.maps[sp], ke, ip.to_val(v))


def hdict_del(ip, d, k):
    sp, ke = key_space(ip, k)
    if sp is None or not ip.ctx.branch(z3.Select(d.maps[sp], ke) != VAL.absent, 'key?'):
        raise_(KeyError, 'key')
    d.maps[sp] = z3.Store(d.maps[sp], ke, VAL.absent)


def hdict_empty(name='d'):
    return HDict(name, {sp: z3.K(srt, VAL.absent) for sp, srt in HDict.SPACES.items()})


def hdict_from_concrete(ip, d, name='d'):
    h = hdict_empty(name)
    for k, v in d.items():
        hdict_set(ip, h, k, v)
    return h


def hdict_copy(ip, d):
    c = HDict(d.name + "'", dict(d.maps))
    c.valtype = d.valtype
    c.refs = d.refs          # a shallow copy of a dict shares the objects its values refer to
    return c


def hdict_overlay(ip, base, top):
    """{**base, **top}"""
    maps = {}
    for sp, srt in HDict.SPACES.items():
        k = z3.Const('k!ov', srt)
        t, b = top.maps[sp], base.maps[sp]
        maps[sp] = z3.Lambda([k], z3.If(z3.Select(t, k) != VAL.absent, z3.Select(t, k), z3.Select(b, k)))
    r = HDict(base.name + '+' + top.name, maps)
    r.valtype = top.valtype or base.valtype
    return r


# ------------------------------------------------------------------------------------ getitem
def norm_index(ip, i, n, what='index'):
    """python index normalisation with IndexError."""
    i, n = zint(i), zint(n)
    if ip.ctx.ghost.get('logic_mode', 0):
        return i          # inside a quantifier body indexing is the total logical select
    if not ip.ctx.branch(z3.And(i >= -n, i < n), 'index'):
        raise_(IndexError, f'{what} out of range')
    ci = sym.concrete_int(i)
    if ci is not None and ci >= 0:
        return i
    if ci is not None and ci < 0:
        return i + n
    return z3.If(i < 0, i + n, i)


def slice_bounds(ip, sl, n):
    """clamped (lo, hi) for a step-1 slice of a sequence of length n (python ints where possible)."""
    if sl.step is not None and sl.step != 1:
        raise Unsupported('slice step')
    lo, hi = sl.start, sl.stop
    allc = isinstance(n, int) and (lo is None or isinstance(lo, int)) and (hi is None or isinstance(hi, int))
    if allc:
        a, b, _ = slice(lo, hi).indices(n)
        return a, max(a, b)
    n = zint(n)

    def clamp(x, dflt):
        if x is None:
            return dflt
        if isinstance(x, int) and x >= 0:
            return z3.If(z3.IntVal(x) > n, n, z3.IntVal(x))
        x = zint(x)
        if not ip.ctx.ghost.get('speculating', 0) and ip.ctx.valid(z3.And(x >= 0, x <= n)):
            return x
        return z3.If(x < 0, z3.If(x + n < 0, 0, x + n), z3.If(x > n, n, x))
    a = clamp(lo, z3.IntVal(0))
    b = clamp(hi, n)
    if not ip.ctx.ghost.get('speculating', 0) and ip.ctx.valid(zint(b) >= zint(a)):
        return a, b
    return a, z3.If(b < a, a, b)


def bytes_slice(ip, v, sl):
    n = blen(v)
    lo, hi = sl.start, sl.stop
    # concrete non-negative bounds against a concrete-length prefix: segment-level slicing
    if (lo is None or (isinstance(lo, int) and lo >= 0)) and (hi is None or (isinstance(hi, int) and hi >= 0)) \
            and (sl.step in (None, 1)):
        tot = sym.total_len_concrete(v)
        if tot is not None:
            a, b, _ = slice(lo, hi).indices(tot)
            r = sym.bslice_concrete(v, a, max(a, b))
            if r is not None:
                return r
        elif hi is not None:
            r = sym.bslice_concrete(v, lo or 0, max(lo or 0, hi))
            if r is not None:
                return r          # the whole slice lies inside a concrete-length prefix... only if len >= hi
    a, b = slice_bounds(ip, sl, n)
    # try to resolve symbolic bounds to segment boundaries using the path condition
    r = _slice_by_boundaries(ip, v, a, b)
    if r is not None:
        return r
    ln = zint(b) - zint(a)
    cl = sym.concrete_int(ln)
    return sym_bytes(z3.SubSeq(bexpr(v), zint(a), ln), cl if cl is not None else z3.simplify(ln))


def _slice_by_boundaries(ip, v, a, b):
    """If a and b can be located in the segment structure of v (on a segment boundary, or at a concrete
    offset inside a concrete segment), slice at segment level -- keeps concrete bytes concrete."""
    if not isinstance(v, SB):
        return None
    bounds = [0]
    for s in v.segs:
        n = len(s) if isinstance(s, bytes) else s.n
        bounds.append(bounds[-1] + n if isinstance(bounds[-1], int) and isinstance(n, int) else
                      z3.simplify(zint(bounds[-1]) + zint(n)))
    if all(isinstance(x, int) for x in bounds) and isinstance(a, int) and isinstance(b, int):
        return None

    def locate(x):
        """(segment index, concrete offset) or None"""
        x = zint(x)
        for idx in range(len(v.segs)):
            d = sym.concrete_int(z3.simplify(x - zint(bounds[idx])))
            s_ = v.segs[idx]
            ln = len(s_) if isinstance(s_, bytes) else (s_.n if isinstance(s_.n, int) else None)
            if d is not None and d >= 0 and ((ln is not None and d < ln) or d == 0):
                return idx, d
        d = sym.concrete_int(z3.simplify(x - zint(bounds[-1])))
        if d == 0:
            return len(v.segs), 0
        for idx in range(len(bounds)):
            if ip.ctx.valid(x == zint(bounds[idx])):
                return idx, 0
        return None
    pa, pb = locate(a), locate(b)
    if pa is None or pb is None:
        return None
    (ia, oa), (ib, ob_) = pa, pb
    if (ib, ob_) < (ia, oa):
        return b''
    out = []
    for idx in range(ia, min(ib, len(v.segs) - 1) + 1 if ib < len(v.segs) else len(v.segs)):
        s_ = v.segs[idx]
        lo = oa if idx == ia else 0
        hi = ob_ if idx == ib else None
        if idx == ib and ob_ == 0:
            break
        if isinstance(s_, bytes):
            out.append(s_[lo:hi])
        else:
            if lo == 0 and hi is None:
                out.append(s_)
            else:
                n_ = s_.n
                h_ = hi if hi is not None else n_
                out.append(Seg(z3.SubSeq(s_.e, z3.IntVal(lo), zint(h_) - lo), (h_ - lo) if isinstance(h_, int) else
                               z3.simplify(zint(h_) - lo)))
    return mkbytes(out)


def getitem(ip, o, k):
    if isinstance(o, SEnum):
        return SEnum(o.idx, {i: getitem(ip, v, k) for i, v in o.table.items()})
    if not isinstance(k, (slice, int)) and is_sym_int(k) and sym.concrete_int(k) is not None:
        k = sym.concrete_int(k)
    if isinstance(k, slice):
        k = slice(ip.resolve(k.start), ip.resolve(k.stop), ip.resolve(k.step))
        # bounds that simplify to numerals are numerals (keeps concrete data concrete)
        k = slice(*[sym.concrete_int(x) if (x is not None and not isinstance(x, int) and is_sym_int(x)
                                            and sym.concrete_int(x) is not None) else x
                    for x in (k.start, k.stop, k.step)])
        if is_concrete(o) and all(is_concrete(x) for x in (k.start, k.stop, k.step)):
            return o[k]
        if isinstance(o, HByteArray):
            return bytes_slice(ip, o.v, k)
        if is_bytes(o):
            return bytes_slice(ip, o, k)
        if isinstance(o, (list, tuple)):
            if all(x is None or isinstance(x, int) for x in (k.start, k.stop, k.step)):
                return o[k]
            raise Unsupported('symbolic slice of python list')
        if isinstance(o, ZList):
            a, b = slice_bounds(ip, k, o.ln)
            j = z3.Const('j!sl', I)
            arr = z3.Lambda([j], z3.Select(o.arr, j + zint(a)))
            return ZList(o.elem, arr, z3.simplify(zint(b) - zint(a)), kind='list' if o.kind == 'deque' else o.kind)
        if isinstance(o, (str, SStr)):
            a, b = slice_bounds(ip, k, z3.Length(sym.sexpr(o)))
            return SStr(z3.SubString(sym.sexpr(o), zint(a), zint(b) - zint(a)))
        raise Unsupported(f'slice of {type(o).__name__}')
    k = ip.resolve(k)
    if is_concrete(o) and is_concrete(k):
        try:
            return o[k]
        except Exception as ex:  # noqa: BLE001
            raise PyRaise(type(ex), PyExcVal(type(ex), ex.args))
    if isinstance(o, HDict):
        return hdict_get(ip, o, k)
    if isinstance(o, Opaque):
        # item of an embedder object: unknown value (A-EMBED)
        n_ = ip.ctx.count('opaque:item')
        e_ = z3.Const(f'embed_item#{n_}', VAL)
        ip.ctx.define(z3.Not(VAL.is_absent(e_)))
        return SV(e_)
    if o is None or isinstance(o, (bool, int, float, SF)) or is_sym_int(o) or is_sym_bool(o):
        raise_(TypeError, 'object is not subscriptable')
    if (is_bytes(o) or isinstance(o, (list, tuple, ZList, str, SStr, HByteArray))) and not isint(k):
        raise_(TypeError, 'indices must be integers')
    if isinstance(o, dict):
        if is_concrete(k):
            if k in o:
                return o[k]
            raise_(KeyError, k)
        table, conds = {}, []
        for i, (kk, vv) in enumerate(o.items()):
            c = eq(ip, k, kk)
            if c is False:
                continue
            table[i] = vv
            conds.append((i, zbool(c)))
        if not conds or not ip.ctx.branch(z3.Or(*[c for _, c in conds]), 'key?'):
            raise_(KeyError, 'key')
        idx = fresh('sel', I)
        ip.ctx.assume(z3.And(*[z3.Implies(idx == i, c) for i, c in conds]))
        ip.ctx.assume(z3.Or(*[idx == i for i, _ in conds]))
        if len(table) == 1:
            return next(iter(table.values()))
        return SEnum(idx, table)
    if isinstance(o, HByteArray):
        o = o.v
    if is_bytes(o):
        n = blen(o)
        if isinstance(k, int) and k >= 0 and isinstance(o, SB):
            r = sym.bslice_concrete(o, k, k + 1)
            if r is not None and isinstance(r, bytes) and len(r) == 1:
                return r[0]
        i = norm_index(ip, k, n)
        return z3.BV2Int(bexpr(o)[zint(i)])
    if isinstance(o, (list, tuple)):
        if isinstance(k, int):
            try:
                return o[k]
            except IndexError:
                raise_(IndexError, 'list index out of range')
        i = norm_index(ip, k, len(o))
        if len(o) == 1:
            return o[0]
        # homogeneous scalar elements: an if-then-else chain (no auxiliary variable)
        r = ip.resolve(o[-1])
        okc = True
        for j in range(len(o) - 2, -1, -1):
            r = ip.ite(zint(i) == j, ip.resolve(o[j]), r)
            if type(r).__name__ == '_Missing':
                okc = False
                break
        if okc:
            return r
        table = {j: o[j] for j in range(len(o))}
        idx = fresh('sel', I)
        ip.ctx.assume(idx == i)
        return SEnum(idx, table)
    if isinstance(o, ZList):
        if o.items is not None and not isinstance(k, int) and sym.concrete_int(k) is not None:
            k = sym.concrete_int(k)
        if o.items is not None and isinstance(k, int):
            try:
                return o.items[k]
            except IndexError:
                raise_(IndexError, 'index out of range')
        i = norm_index(ip, k, o.ln)
        return ip.zl_get(o, i)
    if isinstance(o, (str, SStr)):
        i = norm_index(ip, k, z3.Length(sym.sexpr(o)))
        return SStr(z3.SubString(sym.sexpr(o), zint(i), 1))
    raise Unsupported(f'subscript of {type(o).__name__}')


def setitem(ip, o, k, v):
    k = ip.resolve(k) if not isinstance(k, slice) else k
    if isinstance(o, HDict):
        return hdict_set(ip, o, k, v)
    if isinstance(o, dict):
        if not is_concrete(k):
            raise Unsupported('store into python dict with symbolic key')
        o[k] = v
        return
    if isinstance(o, list):
        if isinstance(k, int):
            try:
                o[k] = v
            except IndexError:
                raise_(IndexError, 'list assignment index out of range')
            return
        raise Unsupported('store into python list with symbolic index')
    if isinstance(o, ZList):
        if o.items is not None and not isinstance(k, int) and not isinstance(k, slice) and sym.concrete_int(k) is not None:
            k = sym.concrete_int(k)
        if o.items is not None and isinstance(k, int):
            try:
                o.items[k] = v
            except IndexError:
                raise_(IndexError, 'assignment index out of range')
            return
        i = norm_index(ip, k, o.ln)
        o.arr = z3.Store(o.arr, zint(i), bexpr(v) if o.elem == 'bytes' else ip.to_val(v))
        return
    if isinstance(o, HByteArray):
        n = blen(o.v)
        i = norm_index(ip, k, n)
        ci = sym.concrete_int(i)
        if ci is None:
            raise Unsupported('bytearray store at symbolic index')
        if not isint(v):
            raise_(TypeError, 'an integer is required')
        if not ip.ctx.branch(z3.And(zint(v) >= 0, zint(v) < 256), 'byte range'):
            raise_(ValueError, 'byte must be in range(0, 256)')
        if isinstance(v, int):
            nb = bytes([v])
        else:
            nb = sym_bytes(z3.Unit(_as_bv(v, 8)), 1)
        pre = getitem(ip, o.v, slice(0, ci))
        post = getitem(ip, o.v, slice(ci + 1, None))
        o.v = mkbytes([pre, nb, post])
        return
    raise Unsupported(f'item store on {type(o).__name__}')


def delitem(ip, o, k):
    k = ip.resolve(k)
    if isinstance(o, HDict):
        return hdict_del(ip, o, k)
    if isinstance(o, dict) and is_concrete(k):
        if k not in o:
            raise_(KeyError, k)
        del o[k]
        return
    raise Unsupported(f'del item on {type(o).__name__}')


# -------------------------------------------------------------------------------------- strings
def senum_str(x):
    """a finite choice among concrete strings as one symbolic string"""
    if isinstance(x, SEnum) and x.table and all(isinstance(v, str) for v in x.table.values()):
        items = list(x.table.items())
        r = z3.StringVal(items[-1][1])
        for k, v in reversed(items[:-1]):
            r = z3.If(zint(x.idx) == k, z3.StringVal(v), r)
        return SStr(r)
    return x


def to_str(ip, x):
    x = senum_str(x)
    if isinstance(x, (str, SStr)):
        return x
    if is_concrete(x):
        return str(x)
    if is_sym_int(x):
        return SStr(sym.str_of_int(x))
    if isinstance(x, PyExcVal):
        if len(x.args) == 0:
            return ''
        if len(x.args) == 1:
            return to_str(ip, x.args[0])
    raise Unsupported(f'str() of symbolic {type(x).__name__}')


def str_concat(ip, parts):
    if all(isinstance(p, str) for p in parts):
        return ''.join(parts)
    es = [sym.sexpr(p) for p in parts if not (isinstance(p, str) and p == '')]
    return SStr(es[0] if len(es) == 1 else z3.Concat(*es))


# ------------------------------------------------------------------------------ attribute model
def attr_model(ip, o, attr):
    if isinstance(o, ZList):
        if attr == 'maxlen' and o.kind == 'deque':
            return o.maxlen
        return _Method(o, attr)
    if isinstance(o, (HDict, SymSet, HByteArray, HashObj, SB, SStr)) or is_sym_int(o):
        return _Method(o, attr)
    return _MISSING


# -------------------------------------------------------------------------------- method models
def zl_pop(ip, zl, idx=None):
    ip.heap_write_guard()
    if idx is not None:
        raise Unsupported('pop(index) on symbolic list')
    if zl.items is not None:
        if not zl.items:
            raise_(IndexError, 'pop from empty list')
        return zl.items.pop()
    if not ip.ctx.branch(zint(zl.ln) > 0, 'nonempty'):
        raise_(IndexError, 'pop from empty list')
    zl.ln = z3.simplify(zint(zl.ln) - 1)
    return ip.zl_get(zl, zl.ln)


def zl_append(ip, zl, v):
    ip.heap_write_guard()
    v = ip.resolve(v)
    if zl.elem == 'bytes' and not is_bytes(v):
        if isinstance(v, HByteArray) and ip.spec_depth == 0:
            # representation invariant of the stack: items are immutable bytes (a bytearray would alias
            # data owned by someone else)
            ip.ctx.oblige(f'{ip.frames[-1]["key"] if ip.frames else "?"}/deque.append/item-is-bytes', False, 'safety')
            v = v.v
        else:
            raise Unsupported('append of a non-bytes value to a list of bytes')
    if zl.kind == 'deque' and zl.maxlen is not None and ip.spec_depth == 0:
        # a deque at maxlen silently drops the item at the other end: this must never happen
        ip.ctx.oblige(f'{ip.frames[-1]["key"] if ip.frames else "?"}/deque.append/below-maxlen',
                      zint(zl.ln) < zint(zl.maxlen), 'safety')
    if zl.items is not None:
        zl.items.append(v)
        return
    zl.arr = z3.Store(zl.arr, zint(zl.ln), bexpr(v) if zl.elem == 'bytes' else ip.to_val(v))
    zl.ln = z3.simplify(zint(zl.ln) + 1)


def list_find(ip, lst, x):
    """index of the first element equal to x, forking; returns None if no element matches."""
    for i, y in enumerate(lst):
        c = eq(ip, y, x)
        if c is True or (c is not False and ip.ctx.branch(zbool(c), 'elem==')):
            return i
    return None


def method_model(ip, o, name, args, kwargs):
    for h in _METHOD_HOOKS:
        r = h(ip, o, name, args, kwargs)
        if r is not _MISSING:
            return r
    if isinstance(o, ZList):
        if name == 'append':
            return zl_append(ip, o, args[0])
        if name == 'pop':
            return zl_pop(ip, o, *args)
        if name == '__len__':
            return o.ln
        if name == 'reverse':
            ip.heap_write_guard()
            j = z3.Const('j!rev', I)
            o.arr = z3.Lambda([j], z3.Select(o.arr, zint(o.ln) - 1 - j))
            return None
        if name == 'clear':
            ip.heap_write_guard()
            o.ln = 0
            return None
        if name == 'copy':
            return ZList(o.elem, o.arr, o.ln, kind=o.kind)
        if name == 'remove':
            # list.remove(x): ValueError iff no element equals x; otherwise the FIRST equal element goes
            # away and the later ones shift down (j is the skolemised position)
            ip.heap_write_guard()
            x = args[0]
            xe = bexpr(ip.resolve(x)) if o.elem == 'bytes' else ip.to_val(x)
            q = fresh('q', I)
            absent_ = z3.ForAll([q], z3.Implies(z3.And(q >= 0, q < zint(o.ln)), z3.Select(o.arr, q) != xe))
            if ip.ctx.branch(absent_, 'not in list'):
                raise_(ValueError, 'list.remove(x): x not in list')
            j = fresh('pos', I)
            q2 = fresh('q', I)
            ip.ctx.assume(z3.And(j >= 0, j < zint(o.ln), z3.Select(o.arr, j) == xe))
            ip.ctx.assume(z3.ForAll([q2], z3.Implies(z3.And(q2 >= 0, q2 < j), z3.Select(o.arr, q2) != xe)))
            q3 = z3.Const('j!rm', I)
            o.arr = z3.Lambda([q3], z3.If(q3 < j, z3.Select(o.arr, q3), z3.Select(o.arr, q3 + 1)))
            o.ln = z3.simplify(zint(o.ln) - 1)
            return None
        if name == 'extend':
            ip.heap_write_guard()
            other = ip.resolve(args[0])
            if isinstance(other, (list, tuple)):
                for x_ in other:
                    zl_append(ip, o, x_)
                return None
            if isinstance(other, ZList) and other.elem == o.elem and other is not o:
                if o.items is not None and other.items is not None:
                    for x_ in list(other.items):
                        zl_append(ip, o, x_)
                    return None
                if o.kind == 'deque':
                    raise Unsupported('deque.extend with a symbolic list')
                a0, n0, a1, n1 = o.arr, zint(o.ln), other.arr, zint(other.ln)
                q_ = z3.Const('j!ext', I)
                o.arr = z3.Lambda([q_], z3.If(q_ < n0, z3.Select(a0, q_), z3.Select(a1, q_ - n0)))
                o.ln = z3.simplify(n0 + n1)
                return None
        raise Unsupported(f'list.{name} on symbolic list')
    if isinstance(o, HDict):
        if name == 'get':
            k = args[0]
            d = args[1] if len(args) > 1 else None
            sp, ke = key_space(ip, k)
            if sp is None:
                return d
            v = z3.Select(o.maps[sp], ke)
            if ip.ctx.branch(v != VAL.absent, 'key?'):
                return SV(v, o.valtype, o)
            return d
        if name == 'copy':
            return hdict_copy(ip, o)
        if name == 'clear':
            ip.heap_write_guard()
            o.maps = {sp: z3.K(srt, VAL.absent) for sp, srt in HDict.SPACES.items()}
            return None
        if name == 'update' and len(args) == 1:
            ip.heap_write_guard()
            src = ip.resolve(args[0])
            if isinstance(src, dict):
                src = hdict_from_concrete(ip, src)
            o.maps = hdict_overlay(ip, o, src).maps
            return None
        if name == 'pop' and len(args) == 2:
            sp, ke = key_space(ip, args[0])
            if sp is None:
                return args[1]
            v = z3.Select(o.maps[sp], ke)
            if ip.ctx.branch(v != VAL.absent, 'key?'):
                ip.heap_write_guard()
                o.maps[sp] = z3.Store(o.maps[sp], ke, VAL.absent)
                return SV(v)
            return args[1]
        if name == 'setdefault' and len(args) in (1, 2):
            # d.setdefault(k, default): the stored value if k is present, else store default and return the stored
            # value (read back through the map so that a list default is the heap object later calls mutate)
            sp, ke = key_space(ip, args[0])
            if sp is None:
                raise Unsupported('dict key of unmodelled type')
            if not ip.ctx.branch(z3.Select(o.maps[sp], ke) != VAL.absent, 'key?'):
                ip.heap_write_guard()
                hdict_set(ip, o, args[0], args[1] if len(args) > 1 else None)
            return SV(z3.Select(o.maps[sp], ke), o.valtype, o)
        raise Unsupported(f'dict.{name} on symbolic dict')
    if isinstance(o, dict) and not is_concrete(o) or (isinstance(o, dict) and not all(is_concrete(a) for a in args)):
        if name == 'get':
            k = ip.resolve(args[0])
            d = args[1] if len(args) > 1 else None
            if is_concrete(k):
                return o.get(k, d)
            c = contains(ip, o, k)
            if ip.ctx.branch(zbool(c), 'key?'):
                return getitem(ip, o, k)
            return d
        if name == 'items':
            return _ItemsView(list(o.items()))
        if name in ('keys', 'values', 'update', 'copy', 'pop', 'setdefault'):
            if all(is_concrete(a) for a in args):
                return getattr(o, name)(*args, **kwargs)
    if isinstance(o, list) and name in ('remove', 'index', 'count') and not (is_concrete(o) and is_concrete(args[0])):
        x = ip.resolve(args[0])
        if name == 'count':
            cs = [zint(zbool(eq(ip, y, x))) for y in o]
            return z3.Sum(cs) if cs else 0
        i = list_find(ip, o, x)
        if i is None:
            raise_(ValueError, 'x not in list')
        if name == 'index':
            return i
        ip.heap_write_guard()
        del o[i]
        return None
    if isinstance(o, list) and name in ('append', 'extend', 'pop', 'reverse', 'insert', 'clear', 'remove'):
        ip.heap_write_guard()
        if name == 'extend':
            o.extend(ip.iter_concrete(args[0]))
            return None
        try:
            return getattr(o, name)(*args)
        except Exception as ex:  # noqa: BLE001
            raise PyRaise(type(ex), PyExcVal(type(ex), ex.args))
    if isinstance(o, SymSet):
        if name == 'add':
            ip.heap_write_guard()
            o.items.append(args[0])
            return None
        if name == '__len__':
            return symset_len(ip, o)
    if isinstance(o, HashObj):
        if name == 'digest':
            return hash_digest(ip, o, *args)
        if name == 'hexdigest':
            return method_model(ip, hash_digest(ip, o, *args), 'hex', [], {})
    if is_bytes(o) and not (is_concrete(o) and all(is_concrete(a) for a in args)):
        if name == 'join':
            return mkbytes(_join(ip, o, args[0]))
        if name == 'hex' and isinstance(o, SB) and not args:
            h_ = sym.hex_of(bexpr(o))
            ip.ctx.define(z3.Length(h_) == 2 * zint(blen(o)))
            return SStr(h_)
        if name == 'decode':
            return utf8_decode(ip, o)
    if isinstance(o, HByteArray):
        if name == 'append':
            ip.heap_write_guard()
            v = args[0]
            if not ip.ctx.branch(z3.And(zint(v) >= 0, zint(v) < 256), 'byte range'):
                raise_(ValueError, 'byte must be in range(0, 256)')
            o.v = mkbytes([o.v, bytes([v]) if isinstance(v, int) else sym_bytes(z3.Unit(_as_bv(v, 8)), 1)])
            return None
    if (is_sym_int(o) or is_sym_bool(o)) or (isinstance(o, int) and not all(is_concrete(a) for a in args)):
        if name == 'to_bytes':
            return int_to_bytes_model(ip, o, *args, **kwargs)
    if isinstance(o, (str, SStr)) and not (is_concrete(o) and all(is_concrete(a) for a in args)):
        if name == 'encode':
            return sym_bytes(sym.utf8enc(sym.sexpr(o)))
        if name == 'join' and isinstance(o, str):
            a0_ = ip.resolve(args[0])
            if isinstance(a0_, ZList) and a0_.items is None and sym.concrete_int(a0_.ln) is None:
                # joined text of a list of symbolic length: an unknown string (nothing is stated about it)
                return SStr(fresh('joined', sym.STR))
            parts = ip.iter_concrete(args[0])
            out = []
            for i, p in enumerate(parts):
                if i:
                    out.append(o)
                out.append(p)
            return str_concat(ip, out)
        raise Unsupported(f'str.{name} on symbolic string')
    if isinstance(o, Opaque):
        return call_opaque(ip, Opaque(f'{o.name}.{name}', o.oid), args, kwargs, method=name)
    return _MISSING


def _join(ip, sep, parts):
    parts = ip.iter_concrete(parts)
    out = []
    for i, p in enumerate(parts):
        p = ip.resolve(p)
        if not is_bytes(p):
            raise_(TypeError, 'sequence item: expected a bytes-like object')
        if i and blen(sep) != 0:
            out.append(sep)
        out.append(p)
    return out


def symset_len(ip, s):
    if getattr(s, 'unknown', False):
        r = fresh('setlen', I)
        ip.ctx.assume(r >= 0)
        return r
    n = 0
    terms = []
    for i, x in enumerate(s.items):
        prev = [zbool(eq(ip, x, y)) for y in s.items[:i]]
        prev = [p for p in prev if not z3.is_false(p)] if prev else []
        if not prev:
            n += 1
        else:
            terms.append(z3.If(z3.Or(*prev), 0, 1))
    if not terms:
        return n
    return z3.Sum(terms) + n


def int_to_bytes_model(ip, n, length=1, byteorder='big', signed=False):
    if signed:
        raise Unsupported('to_bytes(signed=True)')
    k = sym.concrete_int(length)
    n = zint(n)
    if not ip.ctx.branch(n >= 0, 'to_bytes>=0'):
        raise_(OverflowError, "can't convert negative int to unsigned")
    if k is not None and k <= 8:
        if not ip.ctx.branch(n < (1 << (8 * k)), 'to_bytes fits'):
            raise_(OverflowError, 'int too big to convert')
        bv = _as_bv(n, 8 * k) if k else None
        units = [z3.Unit(z3.Extract(8 * (k - j) - 1, 8 * (k - j - 1), bv)) for j in range(k)]
        if byteorder == 'little':
            units.reverse()
        if k == 0:
            return b''
        return sym_bytes(z3.simplify(units[0] if k == 1 else z3.Concat(*units)), k)
    if byteorder != 'big':
        raise Unsupported('to_bytes little with symbolic length')
    kk = zint(length)
    if not ip.ctx.branch(kk >= 0, 'to_bytes len>=0'):
        raise_(ValueError, 'length argument must be non-negative')
    if not ip.ctx.branch(n < mk_pow2(ip, 8 * kk), 'to_bytes fits'):
        raise_(OverflowError, 'int too big to convert')
    r = sym.tobytes(n, kk)
    ok_ = z3.And(kk >= 0, n >= 0, n < mk_pow2(ip, 8 * kk))
    ip.ctx.define(z3.Implies(ok_, z3.Length(r) == kk))
    ip.ctx.define(z3.Implies(ok_, sym.ubig(r) == n))
    return sym_bytes(r, k if k is not None else kk)


def int_from_bytes_model(ip, b, byteorder='big', signed=False):
    if signed:
        raise Unsupported('from_bytes(signed=True)')
    b = ip.resolve(b)
    if isinstance(b, HByteArray):
        b = b.v
    if isinstance(b, (list, tuple)):
        raise Unsupported('from_bytes of list')
    if not is_bytes(b):
        raise_(TypeError, 'cannot convert object to bytes')
    n = blen(b)
    if isinstance(n, int) and n <= 8:
        if n == 0:
            return 0
        e = bexpr(b)
        bv = None
        idxs = range(n) if byteorder == 'big' else range(n - 1, -1, -1)
        for j in idxs:
            x = e[j]
            bv = x if bv is None else z3.Concat(bv, x)
        return z3.BV2Int(z3.simplify(bv))
    f = sym.ubig if byteorder == 'big' else sym.ulittle
    e = bexpr(b)
    r = f(e)
    seen = ip.ctx.ghost.setdefault('ubig_terms', [])
    if any(x.eq(r) for x in seen):
        return r
    seen.append(r)
    ip.ctx.define(r >= 0)
    ip.ctx.define(r < mk_pow2(ip, 8 * zint(n)))
    ip.ctx.define(z3.Implies(z3.Length(e) == 0, r == 0))
    ip.ctx.define(z3.Implies(z3.Length(e) == 1, r == z3.BV2Int(e[0])))
    if byteorder == 'big':
        ip.ctx.define(z3.Implies(z3.Length(e) == 2, r == 256 * z3.BV2Int(e[0]) + z3.BV2Int(e[1])))
    else:
        ip.ctx.define(z3.Implies(z3.Length(e) == 2, r == 256 * z3.BV2Int(e[1]) + z3.BV2Int(e[0])))
    return r


def utf8_decode(ip, b):
    e = bexpr(b)
    if not ip.ctx.branch(sym.utf8ok(e), 'utf8'):
        raise_(UnicodeDecodeError, 'utf-8', b'', 0, 1, 'invalid')
    return SStr(sym.utf8dec(e))


def hash_digest(ip, h, size=None):
    d = ip.resolve(h.data)
    if isinstance(d, HByteArray):
        d = d.v
    if is_concrete(d) and (size is None or isinstance(size, int)):
        ho = getattr(hashlib, h.algo)(d)
        return ho.digest() if size is None else ho.digest(size)
    e = bexpr(d)
    if h.algo == 'sha256':
        r = sym.sha256_f(e)
        ip.ctx.define(z3.Length(r) == 32, lenfact=True)
        return sym_bytes(r, 32)
    if h.algo == 'sha512':
        r = sym.sha512_f(e)
        ip.ctx.define(z3.Length(r) == 64, lenfact=True)
        return sym_bytes(r, 64)
    if h.algo == 'shake_256':
        n = zint(size)
        if not ip.ctx.branch(n >= 0, 'digest size'):
            raise_(ValueError, 'negative digest length')
        ip.models.alloc(ip, n, 'shake_256.digest')
        r = sym.shake256_f(e, n)
        ip.ctx.define(z3.Implies(n >= 0, z3.Length(r) == n), lenfact=True)
        cn = sym.concrete_int(n)
        return sym_bytes(r, cn if cn is not None else n)
    raise Unsupported(f'hash {h.algo}')


def alloc(ip, n, what):
    """C07 allocation ghost: a primitive that builds a value of attacker-influenced size n."""
    lim = ip.ctx.ghost.get('alloc_limit')
    if lim is not None and ip.spec_depth == 0:
        ip.ctx.oblige(f'{ip.frames[-1]["key"] if ip.frames else "?"}/alloc/{what}', zint(n) <= zint(lim), 'safety',
                      info={'what': what})


# ----------------------------------------------------------------------------------- construct
def construct(ip, cls, args, kwargs):
    cm = _CLASS_MODELS.get(cls)
    if cm is not None and not (all(is_concrete(a) for a in args) and all(is_concrete(v) for v in kwargs.values())):
        return cm(ip, *args, **kwargs)
    if isinstance(cls, type) and issubclass(cls, BaseException):
        return PyExcVal(cls, tuple(args))
    if cls is collections.deque:
        if args:
            raise Unsupported('deque(iterable)')
        return ZList('bytes', kind='deque', maxlen=kwargs.get('maxlen'), items=[])
    key = None
    mod = getattr(cls, '__module__', '') or ''
    if mod.startswith('tapescript'):
        if dataclasses.is_dataclass(cls):
            return construct_dataclass(ip, cls, args, kwargs)
        if getattr(cls, '_is_protocol', False):
            raise Unsupported('protocol instantiation')
        o = HObj(cls, {})
        init = cls.__dict__.get('__init__')
        if init is not None:
            ip.call(BoundMethod(o, init), args, kwargs)
        return o
    return _MISSING


def construct_dataclass(ip, cls, args, kwargs):
    fields = dataclasses.fields(cls)
    vals = {}
    args = list(args)
    if len(args) > len(fields):
        raise_(TypeError, 'too many arguments')
    for f, a in zip(fields, args):
        vals[f.name] = a
    for k, v in kwargs.items():
        if k in vals or k not in [f.name for f in fields]:
            raise_(TypeError, f'unexpected argument {k}')
        vals[k] = v
    for f in fields:
        if f.name not in vals:
            if f.default is not dataclasses.MISSING:
                vals[f.name] = f.default
            elif f.default_factory is not dataclasses.MISSING:
                vals[f.name] = f.default_factory()
            else:
                raise_(TypeError, f'missing argument {f.name}')
    if cls.__name__ == 'Tape':
        for n in ('definitions', 'flags', 'contracts', 'plugins'):
            if isinstance(vals[n], dict):
                vals[n] = hdict_from_concrete(ip, vals[n], n)
    return HObj(cls, vals)


# ---------------------------------------------------------------------------------- call models
def call_enum(ip, en, args, kwargs):
    hook = ip.ctx.ghost.get('dispatch_hook')
    if hook is not None:
        return hook(ip, en, args, kwargs)
    raise Unsupported('call through a symbolic table entry (no dispatch contract)')


def call_opaque(ip, fn, args, kwargs, method=None):
    hook = ip.ctx.ghost.get('opaque_hook')
    if hook is not None:
        return hook(ip, fn, args, kwargs, method)
    raise Unsupported(f'call of opaque {fn.name}')


def m_len(ip, v):
    v = ip.resolve(v)
    if is_concrete(v):
        try:
            return len(v)
        except TypeError:
            raise_(TypeError, f'object of type {type(v).__name__} has no len()')
    if is_bytes(v):
        return blen(v)
    if isinstance(v, HByteArray):
        return blen(v.v)
    if isinstance(v, ZList):
        return v.ln
    if isinstance(v, (list, tuple, dict, set)):
        return len(v)
    if isinstance(v, SStr):
        return z3.Length(v.e)
    if isinstance(v, SymSet):
        return symset_len(ip, v)
    if isinstance(v, HObj) and '__len__' in v.cls.__dict__:
        return ip.call_method(v, '__len__', [], {})
    if isinstance(v, HDict):
        raise Unsupported('len of symbolic dict')
    raise_(TypeError, f'object of type {type(v).__name__} has no len()')


def m_type(ip, v):
    return type_of(ip.resolve(v))


def m_int(ip, v=0, base=None):
    v = ip.resolve(v)
    if base is not None:
        raise Unsupported('int(x, base)')
    if isint(v):
        return zint(v) if is_z3(v) else int(v)
    if isinstance(v, SF):
        if not ip.ctx.branch(sym.f_toint_ok(v.e), 'float->int'):
            if ip.ctx.branch(sym.f_isnan(v.e), 'nan'):
                raise_(ValueError, 'cannot convert float NaN to integer')
            raise_(OverflowError, 'cannot convert float infinity to integer')
        return sym.f_toint(v.e)
    raise Unsupported(f'int() of {type(v).__name__}')


def m_isinstance(ip, v, c):
    v = ip.resolve(v)
    cs = c if isinstance(c, tuple) else (c,)
    t = type_of(v)
    res = []
    for cl in cs:
        if getattr(cl, '_is_protocol', False):
            res.append(protocol_check(ip, v, cl))
        else:
            res.append(isinstance(t, type) and issubclass(t, cl))
    if any(r is True for r in res):
        return True
    syms = [r for r in res if not isinstance(r, bool)]
    return z3.Or(*syms) if syms else False


implements = z3.Function('implements', I, z3.StringSort(), z3.BoolSort())


def protocol_check(ip, v, proto):
    if isinstance(v, Opaque):
        return implements(zint(v.oid), z3.StringVal(proto.__name__))
    if isinstance(v, HObj):
        attrs = [a for a in getattr(proto, '__protocol_attrs__', None) or
                 [x for x in dir(proto) if not x.startswith('_')]]
        return all((a in v.f) or any(a in k.__dict__ for k in v.cls.__mro__) for a in attrs)
    if is_concrete(v):
        return isinstance(v, proto)
    return False


def m_bytes(ip, *args):
    if not args:
        return b''
    v = ip.resolve(args[0])
    if isinstance(v, HByteArray):
        return v.v
    if is_bytes(v) and len(args) == 1:
        return v
    if isinstance(v, (str, SStr)) and len(args) == 2:
        if is_concrete(v):
            return bytes(v, args[1])
        return sym_bytes(sym.utf8enc(v.e))
    if isinstance(v, HObj) and len(args) == 1:
        return ip.call_method(v, '__bytes__', [], {})
    if getattr(v, '_symbolic', False) and len(args) == 1:
        r = method_model(ip, v, '__bytes__', [], {})
        if r is not _MISSING:
            return r
    if isinstance(v, (list, tuple)) and len(args) == 1:
        out = []
        for x in v:
            if isinstance(x, int):
                out.append(bytes([x]))
            else:
                out.append(sym_bytes(z3.Unit(_as_bv(x, 8)), 1))
        return mkbytes(out)
    raise Unsupported(f'bytes() of {type(v).__name__}')


def m_str(ip, *args):
    if not args:
        return ''
    v = ip.resolve(args[0])
    if len(args) == 2 and is_bytes(v):
        if is_concrete(v):
            try:
                return str(v, args[1])
            except UnicodeDecodeError as ex:
                raise PyRaise(UnicodeDecodeError, PyExcVal(UnicodeDecodeError, ex.args))
        return utf8_decode(ip, v)
    if isinstance(v, HObj):
        return ip.call_method(v, '__str__', [], {})
    return to_str(ip, v)


def m_range(ip, *args):
    args = [ip.resolve(a) for a in args]
    if all(isinstance(a, int) for a in args):
        return range(*args)
    if len(args) == 1:
        return _SymRange(0, args[0])
    if len(args) == 2:
        return _SymRange(args[0], args[1])
    raise Unsupported('symbolic range step')


def m_bytearray(ip, *args):
    if not args:
        return HByteArray(b'')
    v = ip.resolve(args[0])
    if is_bytes(v):
        return HByteArray(v)
    raise Unsupported('bytearray() of non-bytes')


def m_all(ip, it):
    vals = [ip.truth(x) for x in ip.iter_concrete(it)]
    if any(v is False for v in vals):
        return False
    vs = [v for v in vals if v is not True]
    return z3.And(*vs) if vs else True


def m_any(ip, it):
    it = ip.resolve(it)
    if isinstance(it, ZList) and sym.concrete_int(it.ln) is None:
        # any() over a list of symbolic length: an unknown boolean, false for the empty list
        b = fresh('any', z3.BoolSort())
        ip.ctx.define(z3.Implies(zint(it.ln) <= 0, z3.Not(b)))
        return b
    vals = [ip.truth(x) for x in ip.iter_concrete(it)]
    if any(v is True for v in vals):
        return True
    vs = [v for v in vals if v is not False]
    return z3.Or(*vs) if vs else False


def m_abs(ip, v):
    v = ip.resolve(v)
    if isint(v):
        return z3.If(zint(v) < 0, -zint(v), zint(v))
    raise Unsupported('abs of non-int')


def m_floor(ip, v):
    if isinstance(v, SRat):
        return v.num / v.den
    if isinstance(v, SLog2):
        return mk_flog2(ip, v.n)
    if isint(v):
        return v
    raise Unsupported('floor of symbolic float')


def m_ceil(ip, v):
    if isinstance(v, SRat):
        # exact for |num| < 2**53 (CPython computes num/den in double precision first): stated
        return (v.num + (v.den - 1)) / v.den
    if isint(v):
        return v
    raise Unsupported('ceil of symbolic float')


def m_log2(ip, v):
    v = ip.resolve(v)
    if isint(v):
        if not ip.ctx.branch(zint(v) > 0, 'log2>0'):
            raise_(ValueError, 'math domain error')
        return SLog2(zint(v))
    raise Unsupported('log2 of non-int')


def m_isnan(ip, v):
    v = ip.resolve(v)
    if isinstance(v, SF):
        return sym.f_isnan(v.e)
    if isint(v):
        return False
    raise Unsupported('isnan')


def m_float(ip, v=0.0):
    v = ip.resolve(v)
    if isinstance(v, SF):
        return v
    if isint(v):
        return SF(to_float(ip, v))
    raise Unsupported('float() of symbolic non-number')


def m_time(ip):
    """time(): ghost clock.  int(time()) is what the code uses; we return an SF whose int() is the
    ghost integer `now` (non-decreasing across reads)."""
    g = ip.ctx.ghost
    now = g.get('now')
    if now is None:
        now = fresh('now', I)
        g['now'] = now
    return _Clock(now)


class _Clock:
    _symbolic = True
    def __init__(self, now):
        self.now = now


def m_token_bytes(ip, n=None):
    n = ip.resolve(n)
    if n is None:
        n = 32
    if not isint(n):
        raise_(TypeError, 'token_bytes size')
    if not ip.ctx.branch(zint(n) >= 0, 'token>=0'):
        raise_(ValueError, 'negative argument not allowed')
    alloc(ip, n, 'token_bytes')
    k = ip.ctx.count('token')
    r = sym.token_f(z3.IntVal(k), zint(n))
    ip.ctx.define(z3.Implies(zint(n) >= 0, z3.Length(r) == zint(n)), lenfact=True)
    cn = sym.concrete_int(n)
    return sym_bytes(r, cn if cn is not None else zint(n))


def m_struct_unpack(ip, fmt, data):
    if fmt == '!f':
        data = ip.resolve(data)
        if not ip.ctx.branch(zint(blen(data)) == 4, 'unpack len'):
            raise_(struct.error, 'unpack requires a buffer of 4 bytes')
        return (SF(sym.f_unpack(bexpr(data))),)
    raise Unsupported(f'struct.unpack {fmt!r} on symbolic data')


def m_struct_pack(ip, fmt, *vals):
    if fmt == '!f' and len(vals) == 1:
        v = ip.resolve(vals[0])
        if isint(v):
            v = SF(to_float(ip, v))
        if not isinstance(v, (SF, float)):
            raise_(struct.error, 'required argument is not a float')
        e = sym.fexpr(v)
        if not ip.ctx.branch(sym.f_packok(e), 'pack fits'):
            raise_(OverflowError, 'float too large to pack with f format')
        r = sym.f_pack(e)
        ip.ctx.define(z3.Length(r) == 4, lenfact=True)
        return sym_bytes(r, 4)
    raise Unsupported(f'struct.pack {fmt!r} on symbolic data')


def m_sum(ip, it, start=0):
    tot = start
    for x in ip.iter_concrete(it):
        tot = binop(ip, 'Add', ip.resolve(tot), ip.resolve(x))
    return tot


def m_tuple(ip, it=()):
    it = ip.resolve(it)
    if isinstance(it, ZList):
        n = sym.concrete_int(it.ln)
        if n is None:
            return ZList(it.elem, it.arr, it.ln, kind='tuple')
    return tuple(ip.iter_concrete(it))


def m_list(ip, it=()):
    it = ip.resolve(it)
    if isinstance(it, ZList):
        return ZList(it.elem, it.arr, it.ln, kind='list')
    return list(ip.iter_concrete(it))


def m_set(ip, it=()):
    vals = ip.iter_concrete(it)
    if all(is_concrete(v) for v in vals):
        return SymSet(vals) if True else set(vals)
    return SymSet(vals)


def m_callable(ip, v):
    v = ip.resolve(v)
    if isinstance(v, (AstFunc, BoundMethod)):
        return True
    if isinstance(v, Opaque):
        return callable_f(zint(v.oid))
    return callable(v)


callable_f = z3.Function('callable', I, z3.BoolSort())


def m_zip(ip, *its):
    return list(zip(*[ip.iter_concrete(i) for i in its]))


def m_enumerate(ip, it, start=0):
    return list(enumerate(ip.iter_concrete(it), start))


def m_warn(ip, *a, **k):
    return None


def m_sha256(ip, data=b''):
    return HashObj('sha256', data)


def m_sha512(ip, data=b''):
    return HashObj('sha512', data)


def m_shake256(ip, data=b''):
    return HashObj('shake_256', data)


def m_fromhex(ip, s):
    s = ip.resolve(s)
    if isinstance(s, str):
        try:
            return bytes.fromhex(s)
        except ValueError as ex:
            raise PyRaise(ValueError, PyExcVal(ValueError, ex.args))
    raise Unsupported('bytes.fromhex of symbolic string')


def m_bool(ip, v=False):
    return ip.truth(v)


def m_dict(ip, *args, **kwargs):
    if not args:
        return dict(kwargs)
    v = ip.resolve(args[0])
    if isinstance(v, dict):
        return {**v, **kwargs}
    if isinstance(v, HDict):
        return hdict_copy(ip, v)
    return dict(ip.iter_concrete(v), **kwargs)


def m_min(ip, *args):
    vals = args if len(args) > 1 else ip.iter_concrete(args[0])
    r = vals[0]
    for x in vals[1:]:
        r = z3.If(zint(x) < zint(r), zint(x), zint(r))
    return r


def m_max(ip, *args):
    vals = args if len(args) > 1 else ip.iter_concrete(args[0])
    r = vals[0]
    for x in vals[1:]:
        r = z3.If(zint(x) > zint(r), zint(x), zint(r))
    return r


def _int_of_clock(ip, v=0, base=None):
    if isinstance(v, _Clock):
        return v.now
    return m_int(ip, v, base)


_CALL_MODELS = None


def _table():
    global _CALL_MODELS
    if _CALL_MODELS is None:
        import secrets
        t = {
            len: m_len, type: m_type, int: _int_of_clock, isinstance: m_isinstance, bytes: m_bytes, str: m_str,
            range: m_range, bytearray: m_bytearray, all: m_all, any: m_any, abs: m_abs,
            math.floor: m_floor, math.ceil: m_ceil, math.log2: m_log2, math.isnan: m_isnan, float: m_float,
            _time.time: m_time, secrets.token_bytes: m_token_bytes,
            struct.unpack: m_struct_unpack, struct.pack: m_struct_pack, sum: m_sum, tuple: m_tuple, list: m_list,
            set: m_set, callable: m_callable, zip: m_zip, enumerate: m_enumerate, warnings.warn: m_warn,
            hashlib.sha256: m_sha256, hashlib.sha512: m_sha512, hashlib.shake_256: m_shake256,
            int.from_bytes: int_from_bytes_model, bytes.fromhex: m_fromhex, bool: m_bool, dict: m_dict,
            min: m_min, max: m_max,
        }
        _CALL_MODELS = t
    return _CALL_MODELS


_EXTRA_MODELS = {}     # filled by crypto.py : callable -> model
_CLASS_MODELS = {}     # class -> constructor model (used when an argument is symbolic)
_METHOD_HOOKS = []     # f(ip, obj, name, args, kwargs) -> result | _MISSING


def register_class(cls, model):
    _CLASS_MODELS[cls] = model


def register_method_hook(h):
    _METHOD_HOOKS.append(h)


def register_model(fn, model):
    _EXTRA_MODELS[fn] = model


def call_model(ip, fn, args, kwargs):
    t = _table()
    m = None
    try:
        m = t.get(fn)
        if m is None:
            m = _EXTRA_MODELS.get(fn)
    except TypeError:
        m = None
    if m is None:
        return _MISSING
    always = m in (m_time, m_token_bytes, m_warn, m_sha256, m_sha512, m_shake256, m_set, m_range, m_bytearray,
                   _int_of_clock) or getattr(m, 'always', False)
    if not always and all(is_concrete(a) for a in args) and all(is_concrete(v) for v in kwargs.values()):
        return _MISSING      # concrete-first: let CPython do it
    return m(ip, *args, **kwargs)


def symbolic_comprehension(ip, e, env, it, spec, key, k, kind):
    raise Unsupported(f'comprehension {key}#{k} over symbolic {type(it).__name__}')

"""pyvc.replay -- counterexample concretisation and native replay (DESIGN.md 2.8).

write_replay(prop, obligation name, failed obligation records, spec) writes
/verif/replays/<prop>/<obligation>.json with the obligation, the solver's answer, the concretised
input when the model is realisable, and the outcome of replaying it on the real code:

   confirmed: the real function, run natively on the input, violates its native contract (spec
              refinement or an `ensures` clause) -> the VIOLATION line carries a failing input;
   otherwise the line ends with `no-failing-input-found` and the file carries the solver output.

`./check <prop> --replay <file>` re-runs the native replay of such a file.
"""
from __future__ import annotations
import copy
import json
import os
import re
import subprocess
import sys
import time
import z3
from . import sym

ROOT = os.path.dirname(os.path.dirname(os.path.abspath(__file__)))
OUT = os.environ.get('VERIF_OUT', ROOT)


# ------------------------------------------------------------------------------------------------
def seq_to_bytes(v):
    """z3 Seq(BV8) model value -> bytes, or None"""
    try:
        v = z3.simplify(v)
        if z3.is_app(v) and v.decl().kind() == z3.Z3_OP_SEQ_EMPTY:
            return b''
        if z3.is_app(v) and v.decl().kind() == z3.Z3_OP_SEQ_UNIT:
            return bytes([v.arg(0).as_long()])
        if z3.is_app(v) and v.decl().kind() == z3.Z3_OP_SEQ_CONCAT:
            out = b''
            for c in v.children():
                b = seq_to_bytes(c)
                if b is None:
                    return None
                out += b
            return out
    except Exception:  # noqa: BLE001
        return None
    return None


def val_to_py(m, v):
    """z3 Val model value -> python value (or a marker string)"""
    V = sym.VAL
    v = m.eval(v, model_completion=True)
    try:
        if z3.is_true(m.eval(V.is_absent(v), True)):
            return ('absent',)
        if z3.is_true(m.eval(V.is_vbytes(v), True)):
            return ('bytes', (seq_to_bytes(m.eval(V.y(v), True)) or b'').hex())
        if z3.is_true(m.eval(V.is_vint(v), True)):
            return ('int', m.eval(V.i(v), True).as_long())
        if z3.is_true(m.eval(V.is_vbool(v), True)):
            return ('bool', z3.is_true(m.eval(V.b(v), True)))
        if z3.is_true(m.eval(V.is_vnone(v), True)):
            return ('none',)
        if z3.is_true(m.eval(V.is_vstr(v), True)):
            return ('str', m.eval(V.s(v), True).as_string())
        if z3.is_true(m.eval(V.is_vblist(v), True)):
            n = m.eval(V.ll(v), True).as_long()
            items = []
            for i in range(max(0, min(n, 16))):
                items.append((seq_to_bytes(m.eval(z3.Select(V.la(v), i), True)) or b'').hex())
            return ('tuple' if z3.is_true(m.eval(V.lt(v), True)) else 'list', items)
    except Exception:  # noqa: BLE001
        pass
    return ('other', str(v)[:80])


def store_keys(arr_val):
    """keys mentioned in a model value of an array (Store chain / lambda with ites)"""
    keys = []
    seen = set()

    def walk(e, depth=0):
        if depth > 200 or e.get_id() in seen:
            return
        seen.add(e.get_id())
        if z3.is_app(e) and e.decl().kind() == z3.Z3_OP_STORE:
            keys.append(e.arg(1))
        for c in e.children():
            walk(c, depth + 1)
    walk(arr_val)
    return keys


def concretize(m):
    """model -> dict of concrete inputs by constant name"""
    out = {}
    for d in m.decls():
        if d.arity() != 0:
            continue
        name = d.name()
        v = m[d]
        srt = v.sort() if hasattr(v, 'sort') else None
        try:
            if srt == sym.I:
                out[name] = ('int', v.as_long())
            elif srt == z3.BoolSort():
                out[name] = ('bool', z3.is_true(v))
            elif srt == sym.BYTES:
                b = seq_to_bytes(v)
                if b is not None:
                    out[name] = ('bytes', b.hex())
            elif srt == sym.VAL:
                out[name] = val_to_py(m, v)
            elif isinstance(srt, z3.ArraySortRef) and srt.domain() == sym.I and srt.range() == sym.BYTES:
                # list / stack contents: evaluated up to the matching length constant if any
                ln_name = name[:-4] + '_len' if name.endswith('_arr') else None
                n = None
                for d2 in m.decls():
                    if d2.name() == ln_name:
                        n = m[d2].as_long()
                if n is not None:
                    items = []
                    for i in range(max(0, min(n, 64))):
                        b = seq_to_bytes(m.eval(z3.Select(z3.Const(name, srt), i), True))
                        items.append((b or b'').hex())
                    out[name] = ('items', items, n)
            elif isinstance(srt, z3.ArraySortRef) and srt.range() == sym.VAL:
                ent = []
                c = z3.Const(name, srt)
                keys = list(store_keys(v))
                if srt.domain() == z3.StringSort():
                    keys += [z3.StringVal(f'sigfield{i}') for i in range(1, 9)] + \
                        [z3.StringVal(s) for s in ('timestamp', 'returned', 'ts_threshold', 'epoch_threshold',
                                                  'signature_extensions', 'check_template', 'eval_return',
                                                  'disallow_OP_EVAL')]
                if srt.domain() == sym.I:
                    keys += [z3.IntVal(i) for i in range(0, 11)]
                seenk = set()
                for k in keys[:48]:
                    kv = m.eval(k, True)
                    ks = str(kv)
                    if ks in seenk:
                        continue
                    seenk.add(ks)
                    if srt.domain() == sym.BYTES:
                        kb = seq_to_bytes(kv)
                        if kb is None:
                            continue
                        kpy = ('bytes', kb.hex())
                    elif srt.domain() == sym.I:
                        kpy = ('int', kv.as_long())
                    else:
                        kpy = ('str', kv.as_string())
                    ent.append((kpy, val_to_py(m, z3.Select(c, k))))
                out[name] = ('dict', ent)
        except Exception:  # noqa: BLE001
            continue
    return out


# ------------------------------------------------------------------------------------------------
def write_replay(prop, name, records, spec):
    d = os.path.join(OUT, 'replays', prop)
    os.makedirs(d, exist_ok=True)
    safe = re.sub(r'[^A-Za-z0-9_.#\[\]-]+', '_', name)[:150]
    path = os.path.join(d, safe + '.json')
    rec = records[0]
    fn = name.split('/')[0]
    doc = {
        'property': prop, 'obligation': name, 'function': fn,
        'solver': [{'status': r['status'], 'backend': r.get('backend'), 'path': r.get('path'),
                    'outcome': r.get('outcome'), 'info': r.get('info'), 'cvc5': r.get('cvc5'),
                    'time_s': r.get('time_s')} for r in records[:8]],
        'inputs': None, 'replay': None,
        'how_to_replay': f'./check {prop} --replay {os.path.relpath(path, OUT)}',
    }
    confirmed = False
    for r in records:
        if str(r.get('backend', '')).startswith('native'):
            # a native (bounded / exhaustive) check failed on the real code: its failing input is the replay
            doc['inputs'] = r.get('info')
            doc['replay'] = {'confirmed': True, 'what': 'native check of the real code failed on this input'}
            confirmed = True
            break
        if r.get('inputs'):
            doc['inputs'] = r['inputs']
            res = native_replay(fn, r['inputs'])
            doc['replay'] = res
            if res.get('confirmed'):
                confirmed = True
                break
    if doc['inputs'] is None:
        doc['model_excerpt'] = rec.get('model')
    with open(path, 'w') as f:
        json.dump(doc, f, indent=1, default=str)
    return os.path.relpath(path, OUT), confirmed


def native_replay(fn_key, inputs, timeout=20):
    """run the real function on the concretised input in a subprocess (watchdog, address-space
    limit) and evaluate its native contract"""
    code = (f'import sys; sys.path.insert(0, {ROOT!r}); '
            f'import resource; resource.setrlimit(resource.RLIMIT_AS, (3 << 30, 3 << 30)); '
            f'from pyvc import native; import json; '
            f'print("REPLAY-RESULT " + json.dumps(native.replay({fn_key!r}, json.loads(sys.stdin.read()))))')
    try:
        p = subprocess.run([sys.executable, '-c', code], input=json.dumps(inputs), capture_output=True, text=True,
                           timeout=timeout, env={**os.environ})
    except subprocess.TimeoutExpired:
        return {'confirmed': True, 'what': f'the real function did not terminate within {timeout} s on this input',
                'timeout': True}
    for line in p.stdout.splitlines():
        if line.startswith('REPLAY-RESULT '):
            return json.loads(line[len('REPLAY-RESULT '):])
    return {'confirmed': False, 'what': 'replay harness failed', 'stderr': (p.stderr or '')[-1500:]}


def replay_file(path):
    with open(path) as f:
        doc = json.load(f)
    if (doc.get('replay') or {}).get('what', '').startswith('native check'):
        print(json.dumps(doc, indent=1)[:3000])
        return 1
    if not doc.get('inputs'):
        print(f'replay file carries no concrete input (obligation {doc["obligation"]}); solver output:')
        print(json.dumps(doc.get('solver'), indent=1))
        return 1
    res = native_replay(doc['function'], doc['inputs'])
    print(json.dumps(res, indent=1))
    return 1 if res.get('confirmed') else 0

"""pyvc.vocab -- the contract vocabulary, NATIVE implementations.

Sidecar contracts import these names.  Natively (run-time monitor, counterexample replay) they are
the plain python functions below; the symbolic executor recognises the same function objects and
substitutes its logical counterpart (pyvc/vocab_sym.py).  A contract is admitted only if it runs
both ways.
"""
from __future__ import annotations
import hashlib


class AnyError(Exception):
    """raised by a spec to say: some exception, class not specified by the documentation."""


class Ghost:
    """ghost state of one execution (native side: set by the monitor / replay harness)."""

    def __init__(self):
        self.now = None
        self.evals = []
        self.plugin_calls = 0


ghost = Ghost()


def forall(lo, hi, f):
    return all(f(i) for i in range(lo, hi))


def exists(lo, hi, f):
    return any(f(i) for i in range(lo, hi))


def implies(a, b):
    if not a:
        return True
    return b() if callable(b) else bool(b)


def ite(c, a, b):
    return a if c else b


def ubig(b):
    return int.from_bytes(b, 'big')


def ulittle(b):
    return int.from_bytes(b, 'little')


def pow2(n):
    return 1 << n


def sdecode(b):
    """two's complement big-endian value of a non-empty byte string"""
    n = int.from_bytes(b, 'big')
    return n - (1 << (8 * len(b))) if b[0] & 0x80 else n


def bitlen(n):
    return n.bit_length()


def sha256(b):
    return hashlib.sha256(b).digest()


def shake256(b, n):
    return hashlib.shake_256(b).digest(n)


def sha512(b):
    return hashlib.sha512(b).digest()


def is_kb(k):
    return type(k) is bytes


def is_ks(k):
    return type(k) is str


def is_ki(k):
    return type(k) is int


def same(a, b):
    """deep equality of contents (lists, dicts, objects by fields)"""
    if hasattr(a, '__dict__') and hasattr(b, '__dict__') and type(a) is type(b):
        return all(same(getattr(a, k), getattr(b, k)) for k in a.__dict__)
    return a == b


def str_keys_same(d0, d1):
    """every str-keyed entry of d0 / d1 is present in both with the same value"""
    k0 = {k for k in d0 if type(k) is str}
    k1 = {k for k in d1 if type(k) is str}
    return k0 == k1 and all(d0[k] is d1[k] or d0[k] == d1[k] for k in k0)


def strint_keys_same(d0, d1):
    k0 = {k for k in d0 if type(k) in (str, int)}
    k1 = {k for k in d1 if type(k) in (str, int)}
    return k0 == k1 and all(d0[k] == d1[k] for k in k0)


def bytes_keys_same_except(d0, d1, keys):
    k0 = {k for k in d0 if type(k) is bytes and k not in keys}
    k1 = {k for k in d1 if type(k) is bytes and k not in keys}
    return k0 == k1 and all(d0[k] == d1[k] for k in k0)


def dict_same(d0, d1):
    return d0 == d1


def items_of(stack):
    """the stack contents as a python list (bottom first)"""
    return list(stack.deque)


def all_bytes_items(seq, max_len):
    return all(type(x) is bytes and len(x) <= max_len for x in seq)


def use_lemma(name, *terms):
    return True


def cover(label):
    return True


# ---- closed forms for "pull n items" / "push a list" (no loop in the spec) -------------------------
def take_top(stack, n):
    """remove the top n items; returns them top-first; IndexError if fewer than n"""
    return [stack.get() for _ in range(n)]


def put_all(stack, items):
    """push the items in order (Stack.put semantics: TypeError / ScriptExecutionError)"""
    for it in items:
        stack.put(it)


def int_sum(items):
    """sum of the two's-complement values of a list of byte strings (ValueError on an empty item)"""
    from tapescript.functions import bytes_to_int
    t = 0
    for it in items:
        t += bytes_to_int(it)
    return t


def int_sub(items):
    """first minus the rest"""
    from tapescript.functions import bytes_to_int
    t = bytes_to_int(items[0])
    for it in items[1:]:
        t -= bytes_to_int(it)
    return t


def int_prod(items):
    from tapescript.functions import bytes_to_int
    t = bytes_to_int(items[0])
    for it in items[1:]:
        t *= bytes_to_int(it)
    return t


def all_nonempty(items):
    return all(len(x) > 0 for x in items)


def fresh_bytes(tag, n):
    """nondeterministic bytes of length n (native: only used in monitors, where the real value is
    substituted by the harness)"""
    import secrets
    return secrets.token_bytes(n)


def repeat(item, n):
    return [item] * n


def top_items(stack, n):
    """the top n items, top first, without removing them"""
    d = list(stack.deque)
    return [d[len(d) - 1 - j] for j in range(n)]


def xor_bytes(a, b):
    return bytes(x ^ y for x, y in zip(a, b))


def imin(a, b):
    return a if a < b else b


def int_prod_from(c, items):
    """c times the product of the decoded items"""
    return c * int_prod([b'\x01'] + list(items)) if items else c


# ---- typed views of dict entries ------------------------------------------------------------------
def is_bytes_or_absent(d, k):
    return k not in d or type(d[k]) is bytes


def is_bool_or_absent(d, k):
    return k not in d or type(d[k]) is bool


def is_int_or_absent(d, k):
    return k not in d or type(d[k]) is int


def is_list_or_absent(d, k):
    return k not in d or type(d[k]) is list


def list_len_at(d, k):
    """len(d[k]) for a list entry, 0 when absent"""
    return len(d[k]) if k in d else 0


def calls(name):
    """number of calls of a repository function made by the verified body on this path (ghost)"""
    raise NotImplementedError('calls() is evaluated by the monitor')


def ed_verify(key, message, sig):
    from nacl.signing import VerifyKey
    from nacl.exceptions import BadSignatureError
    try:
        VerifyKey(key).verify(message, sig)
        return True
    except BadSignatureError:
        return False


def ed_sign(seed, message):
    from nacl.signing import SigningKey
    return SigningKey(seed).sign(message).signature


def zeros(n):
    return b'\x00' * n


def all_values_refs(d):
    """every value of the dict is an object reference (not bytes / int / ...)"""
    return all(not isinstance(v, (bytes, int, str, float, list, tuple, type(None))) for v in d.values())


class SpecUnavailable(Exception):
    """raised by a spec that does not cover the present shape of arguments (the call then falls back
    to the contract's havoc / ensures)"""


def concrete_len(x):
    """True if x is a list / tuple whose length is a concrete number (always, natively)"""
    return True


def unspecified():
    raise SpecUnavailable()


def strint_part(d):
    """the str / int keyed part of a dict"""
    return {k: v for k, v in d.items() if type(k) in (str, int)}


def list_at(d, k):
    return d[k]


def dict_same_except(d0, d1, key):
    """same entries apart from the one at `key`"""
    return {k: v for k, v in d0.items() if k != key} == {k: v for k, v in d1.items() if k != key}


def defined(name, f, *args):
    """a named boolean definition: f(*args).  A lemma may declare `name` opaque, in which case the
    logical counterpart is an uninterpreted predicate of the arguments (the lemma then holds for every
    interpretation, in particular for f)"""
    return f(*args)


def unknown_bool(tag):
    """an unknown boolean (one per call): a contract that does not say when something happens"""
    raise NotImplementedError('unknown_bool has no native value')


def restrict_str(d, keys):
    """the sub-dict of d on the given str keys"""
    return {k: d[k] for k in keys if k in d}


def lemma_point(name, *values):
    """a named program point inside an abstract contract: the lemma that installed the contract states
    its claim there (natively: nothing)"""
    return None

"""pyvc.verify -- verification of one function body against its sidecar contract.

For every path of the body (DFS over decision prefixes, re-execution, no state copying):
  assume requires;  run the BODY on the initial state;  run the SPEC on a copy of the same initial
  state under the same path condition;  obligations:
     refine/outcome   same return / raise (exception class unless the spec raises AnyError)
     refine/result    same return value
     refine/<param>   same final contents of every compared parameter object
     post/<label>     every `ensures` clause on (old, final)
     frame/<path>     everything not listed in `modifies` is unchanged
  plus the obligations emitted on the way: pre[...] at call sites, loop invariants and variants,
  safety (raw deque append below maxlen, allocation bound).
Obligations are discharged by z3; `unknown` is retried on cvc5 via an SMT-LIB dump.
"""
from __future__ import annotations
import os
import re
import subprocess
import tempfile
import time
import traceback
import z3
from . import sym, prelude, vocab
from .sym import zint, zbool, HObj, ZList, HDict
from .interp import Ctx, Interp, AstFunc, Unsupported, PathAbort, PyRaise, PyExcVal, Env
from .heap import snapshot, same_value
from .apply import Old, call_contract_fn, all_clauses, call_spec
from . import crypto  # noqa: F401  (registers the libsodium models)
from .state import Mk

QUICK_TIMEOUT_MS = 20000


class FnResult:
    def __init__(self, key):
        self.key = key
        self.obligations = []     # dicts
        self.paths = 0
        self.cut_paths = 0
        self.undecided = None     # reason string if the function could not be translated
        self.vacuous = []         # cases whose requires are unsatisfiable
        self.time_s = 0.0
        self.contracts_used = set()
        self.outcomes = {}
        self.infeasible = 0
        self.notes = []
        self.error = None

    def failed(self):
        return [o for o in self.obligations if o['status'] != 'discharged']

    def to_json(self):
        return {'key': self.key, 'paths': self.paths, 'cut_paths': self.cut_paths, 'undecided': self.undecided,
                'vacuous': self.vacuous, 'time_s': round(self.time_s, 3), 'error': self.error, 'outcomes': self.outcomes,
                'contracts_used': sorted(self.contracts_used),
                'obligations': self.obligations}


def configure_ip(ip, reg, contract):
    """hooks shared by all verifications; the sidecar's common module may refine them"""
    common = reg.side_trees.get('contracts.common')
    if common is not None:
        conf = getattr(common[1], 'configure', None)
        if conf is not None:
            conf(ip, reg, contract)


def build_cases(reg, contract, fnode):
    """list of (label, builder(ip) -> params dict)"""
    params = [a.arg for a in fnode.args.posonlyargs + fnode.args.args + fnode.args.kwonlyargs]
    if fnode.args.vararg:
        params.append(fnode.args.vararg.arg)
    decl = contract.params
    par = contract
    while decl is None and par is not None and par.extends:
        par = reg.get(par.extends)
        decl = par.params if par is not None else None
    decl = decl or {}

    def default_builder(ip, overrides=None):
        mk = Mk(ip)
        out = {}
        for p in params:
            d = (overrides or {}).get(p, decl.get(p))
            if d is None:
                raise Unsupported(f'contract {contract.key}: no type descriptor for parameter {p}')
            out[p] = mk.of(d, p)
        return out
    if contract.cases_decl:
        cases = []
        for label, fn in contract.cases_decl:
            f = getattr(fn, '__func__', fn)

            def b(ip, f=f):
                mk = Mk(ip)
                base = default_builder(ip)
                r = f(mk, base)
                return r if r is not None else base
            cases.append((label, b))
        return cases
    return [('default', default_builder)]


def run_path(src, reg, contract, fnode, fglobs, case_builder, prefix, opts):
    key = contract.key
    ctx = Ctx(prefix, axioms=prelude.axioms(getattr(contract.cls, 'axioms', ())), timeout_ms=opts.get('branch_ms', 2000),
              fname=key)
    ip = Interp(ctx, src, reg)
    ip.verifying = key
    configure_ip(ip, reg, contract)
    status = 'ok'
    try:
        params = case_builder(ip)
        gl = contract.cls.__dict__.get('globals')
        if gl:
            mk = Mk(ip)
            ctx.ghost['globals'] = {n: mk.of(d, n) for n, d in gl.items()}
            params = dict(params)
            for n, v in ctx.ghost['globals'].items():
                params['G' + n] = v        # visible to requires / ensures as G<name>
        for label, cond in all_clauses(ip, contract, 'requires', params):
            ctx.assume(ip.cval(cond))
        ctx.ghost['requires_done'] = len(ctx.pc)
        if not ctx.feasible():
            return ctx, 'vacuous'
        # C07 allocation ghost: bound on the size argument of allocating primitives
        par = contract
        while par is not None:
            f = par.cls.__dict__.get('alloc_limit')
            if f is not None:
                af = reg.side_ast(getattr(f, '__func__', f))
                names = [a.arg for a in af.node.args.args]
                ctx.ghost['alloc_limit'] = ip.call_ast(af, [params[n] for n in names], {})
                break
            par = reg.get(par.extends) if par.extends else None
        ctx.ghost['params'] = params
        init_copy = snapshot(dict(params))
        old = Old(snapshot(dict(params)))
        ctx.ghost['old'] = old
        body = AstFunc(fnode, fglobs, None, key=None, name=key)
        outcome = None
        bparams = {n: v for n, v in params.items() if not (gl and n[1:] in gl and n.startswith('G'))}
        try:
            res = _call_body(ip, body, key, bparams)
            outcome = ('return', res)
        except PyRaise as r:
            outcome = ('raise', r.cls, r)
        # ---- spec refinement
        spec = reg.contract_fn(contract, 'spec')
        ctx.ghost['body_counters'] = dict(ctx.counters)
        if spec is not None:
            ctx.counters = {}
            saved_frames = ip.frames
            ip.frames = []
            ctx.ghost['in_spec'] = True
            body_globals = ctx.ghost.get('globals')
            if gl:
                ctx.ghost['globals'] = {n: init_copy['G' + n] for n in gl}      # the spec runs on the initial registries
            try:
                sres = call_spec(ip, spec, init_copy)
                soutcome = ('return', sres)
            except PyRaise as r:
                soutcome = ('raise', r.cls, r)
            finally:
                ctx.ghost['in_spec'] = False
                ctx.ghost['globals'] = body_globals
                ip.frames = saved_frames
            _compare(ip, contract, params, init_copy, outcome, soutcome)
        # ---- ensures
        post = all_clauses(ip, contract, 'ensures', params,
                           {'old': old, 'result': outcome[1] if outcome[0] == 'return' else None,
                            'raised': outcome[1] if outcome[0] == 'raise' else None})
        for label, cond in post:
            ctx.oblige(f'{key}/post/{label.lstrip("!")}', ip.cval(cond), 'post')
        # ---- frame
        if contract.modifies is not None:
            _frame(ip, contract, params, old)
        ctx.ghost['outcome'] = outcome[0] if outcome[0] == 'return' else f'raise {outcome[1].__name__}'
    except PathAbort as a:
        status = a.why
    except Unsupported as u:
        # an unmodelled construct on a path that is in fact infeasible (the path solver answered
        # `unknown` within its small budget somewhere) is not a reason to give up: decide the path
        # condition with a real budget first
        s = z3.Solver()
        s.set('timeout', opts.get('garbage_ms', 5000))
        for a in ctx.axioms:
            s.add(a)
        for c in ctx.pc:
            s.add(c)
        if s.check() == z3.unsat:
            status = 'infeasible'
            ctx.taken_garbage = True
        else:
            raise
    return ctx, status


def _call_body(ip, body, key, params):
    """interpret the body with frames labelled by the function key"""
    env = Env(dict(params), None)
    ip.frames.append({'key': key, 'loop': 0, 'call': {}, 'globs': body.globs, 'env': env})
    ip.ctx.ghost['body_env'] = env
    ip.depth += 1
    try:
        from .interp import _Return
        try:
            ip.run_block(body.node.body, env)
        except _Return as r:
            return r.v
        return None
    finally:
        ip.frames.pop()
        ip.depth -= 1


def _compare(ip, contract, params, sparams, outcome, soutcome):
    ctx = ip.ctx
    key = contract.key
    if outcome[0] != soutcome[0]:
        ctx.oblige(f'{key}/refine/outcome', False, 'refine',
                   info={'body': _oc(outcome), 'spec': _oc(soutcome)})
        return
    if outcome[0] == 'raise':
        if soutcome[1] is not vocab.AnyError and outcome[1] is not soutcome[1]:
            ctx.oblige(f'{key}/refine/exception-class', False, 'refine',
                       info={'body': _oc(outcome), 'spec': _oc(soutcome)})
        # the state after a failed call is constrained by `ensures` (invariants, frames) only
        ctx.oblige(f'{key}/refine/outcome', True, 'refine', info={'body': _oc(outcome)})
        return
    else:
        out = []
        same_value(ip, outcome[1], soutcome[1], 'result', out)
        for label, c in out:
            ctx.oblige(f'{key}/refine/{label}', c, 'refine')
    names = contract.compare if contract.compare is not None else list(params.keys())
    for n in names:
        out = []
        same_value(ip, params[n], sparams[n], n, out)
        for label, c in out:
            ctx.oblige(f'{key}/refine/{label}', c, 'refine')


def _oc(o):
    return 'return' if o[0] == 'return' else f'raise {o[1].__name__}'


def _frame(ip, contract, params, old):
    """everything reachable from the parameters and not listed in modifies is unchanged"""
    mods = set(contract.modifies)
    key = contract.key

    def walk(cur, prev, path, seen):
        if path in mods or any(path.startswith(m + '.') for m in mods):
            return
        if isinstance(cur, HObj) and isinstance(prev, HObj):
            if id(cur) in seen:
                return
            seen.add(id(cur))
            for k in cur.f:
                if k in prev.f:
                    walk(cur.f[k], prev.f[k], f'{path}.{k}', seen)
                else:
                    ip.ctx.oblige(f'{key}/frame/{path}.{k}', False, 'frame')
            return
        if any(m.startswith(path + '.') for m in mods):
            return
        out = []
        same_value(ip, cur, prev, path, out)
        for label, c in out:
            ip.ctx.oblige(f'{key}/frame/{label}', c, 'frame')
    for n, v in params.items():
        walk(v, getattr(old, n), n, set())


# ------------------------------------------------------------------------------------------------
def solve_obligation(ob, timeout_ms, use_cvc5=True):
    t0 = time.time()
    g = ob.goal
    if z3.is_true(z3.simplify(g)):
        return {'status': 'discharged', 'backend': 'trivial', 'time_s': 0.0}
    s = z3.Solver()
    s.set('timeout', timeout_ms)
    for a in ob.axioms:
        s.add(a)
    for c in ob.pc:
        s.add(c)
    s.add(z3.Not(g))
    r = s.check()
    dt = time.time() - t0
    if r == z3.unsat:
        return {'status': 'discharged', 'backend': 'z3', 'time_s': round(dt, 3)}
    res = {'status': 'failed' if r == z3.sat else 'unknown', 'backend': 'z3', 'time_s': round(dt, 3)}
    if r == z3.sat:
        try:
            m = s.model()
            res['model'] = {str(d): str(m[d])[:200] for d in m.decls() if '!' not in d.name()}
            from .replay import concretize
            res['inputs'] = concretize(m)
        except Exception:  # noqa: BLE001
            pass
    elif use_cvc5:
        c = cvc5_check(s, timeout_ms)
        if c == 'unsat':
            return {'status': 'discharged', 'backend': 'cvc5', 'time_s': round(time.time() - t0, 3)}
        res['cvc5'] = c
        # last resort: z3 again from scratch with another seed and three times the budget (verdicts
        # must not flip when all cores are busy)
        s2 = z3.Solver()
        s2.set('timeout', timeout_ms * 3)
        s2.set('random_seed', 7)
        for a in ob.axioms:
            s2.add(a)
        for c_ in ob.pc:
            s2.add(c_)
        s2.add(z3.Not(g))
        if s2.check() == z3.unsat:
            return {'status': 'discharged', 'backend': 'z3(retry)', 'time_s': round(time.time() - t0, 3)}
        res['time_s'] = round(time.time() - t0, 3)
    if res['status'] == 'unknown':
        # z3 does not answer `sat` in the presence of quantified facts.  A CANDIDATE counter-model: the
        # negated goal with the quantifier-free part of the path condition only, small sizes.  It proves
        # nothing by itself (the path condition was weakened); it becomes a violation only if the native
        # replay on the real code confirms it.
        try:
            from .interp import has_quantifier
            s3 = z3.Solver()
            s3.set('timeout', 8000)
            for c_ in ob.pc:
                if not has_quantifier(c_):
                    s3.add(c_)
            s3.add(z3.Not(g))
            if s3.check() == z3.sat:
                m = s3.model()
                m = _small_model(s3, m) or m
                from .replay import concretize
                res['inputs'] = concretize(m)
                res['candidate'] = 'model of the negated goal under the quantifier-free part of the path condition'
        except Exception:  # noqa: BLE001
            pass
    return res


def _small_model(solver, m):
    """a counter-model is replayed on the real code: ask for one with short lists and short byte strings
    (same solver state plus size bounds, 6 s); None if there is none within the bounds"""
    try:
        bounds = []
        for d in m.decls():
            if d.arity() != 0:
                continue
            c = d()
            if c.sort() == z3.IntSort() and (d.name().endswith('_len') or d.name().endswith('_max_items')):
                bounds.append(c <= 8)
            elif c.sort() == z3.IntSort() and d.name().endswith('_max_item_size'):
                bounds.append(c <= 1024)
            elif z3.is_seq(c) and not z3.is_string(c):
                bounds.append(z3.Length(c) <= 80)
        if not bounds:
            return None
        solver.push()
        try:
            solver.set('timeout', 6000)
            for b in bounds:
                solver.add(b)
            if solver.check() == z3.sat:
                return solver.model()
        finally:
            solver.pop()
            solver.set('timeout', 3000)
    except Exception:  # noqa: BLE001
        pass
    return None


class IncSolver:
    n_models = 0

    """obligations of one path in emission order: the path condition only grows, so one incremental
    solver is used; each goal is checked under exactly the path condition it was emitted with"""

    def __init__(self, axioms, timeout_ms):
        self.s = z3.Solver()
        # the incremental solver gets a short budget: when it does not answer quickly the obligation is
        # retried from scratch with the full budget (fresh solver state often decides at once what the
        # incremental state does not)
        self.s.set('timeout', min(timeout_ms, 3000))
        # a second incremental solver sees the sequence-theory abstraction of the same formulas
        # (abstract.py: interpreted sequence operations become uninterpreted, one constant per term).
        # Every model of the exact formula induces a model of the abstract one, so `unsat` of the
        # abstraction proves the obligation; anything else falls through to the exact solver.
        from .abstract import SeqAbs
        self.abs = SeqAbs()
        self.a = z3.Solver()
        self.a.set('timeout', min(timeout_ms, 2000))
        for a in axioms:
            self.s.add(a)
            self.a.add(self.abs.form(a))
        self.n = 0
        self.timeout_ms = timeout_ms
        self.abs_ok = self.inc_ok = True      # an incremental solver that timed out once on this path is dropped

    def _abs_add(self, c):
        if not self.abs_ok:
            return
        f = self.abs.form(c)
        for x in self.abs.facts():
            self.a.add(x)
        self.a.add(f)

    def solve(self, ob, use_cvc5=True):
        t0 = time.time()
        for c in ob.pc[self.n:]:
            self.s.add(c)
            self._abs_add(c)
        self.n = max(self.n, len(ob.pc))
        g = ob.goal
        if (ob.info or {}).get('trivial') == 'assumed' or z3.is_true(z3.simplify(g)):
            return {'status': 'discharged', 'backend': 'trivial', 'time_s': 0.0}
        if self.abs_ok:
          try:
            ng = self.abs.form(z3.Not(g))
            for x in self.abs.facts():
                self.a.add(x)         # facts about the constants just introduced stay (outside the push)
            self.a.push()
            self.a.add(ng)
            ra = self.a.check()
            self.a.pop()
            if ra == z3.unsat:
                return {'status': 'discharged', 'backend': 'z3(seq-abstraction)', 'time_s': round(time.time() - t0, 3)}
            if ra == z3.unknown:
                self.abs_ok = False
          except z3.Z3Exception:
            self.abs_ok = False
        if not self.inc_ok:
            return solve_obligation(ob, self.timeout_ms, use_cvc5)
        self.s.push()
        self.s.add(z3.Not(g))
        r = self.s.check()
        if r == z3.sat:
            res = {'status': 'failed', 'backend': 'z3'}
            try:
                # models are concretised for the first few failures only (it is costly)
                if IncSolver.n_models < 6:
                    IncSolver.n_models += 1
                    m = self.s.model()
                    m = _small_model(self.s, m) or m
                    res['model'] = {str(d): str(m[d])[:200] for d in m.decls() if '!' not in d.name()}
                    from .replay import concretize
                    res['inputs'] = concretize(m)
            except Exception:  # noqa: BLE001
                pass
            self.s.pop()
            res['time_s'] = round(time.time() - t0, 3)
            return res
        self.s.pop()
        if r == z3.unsat:
            return {'status': 'discharged', 'backend': 'z3', 'time_s': round(time.time() - t0, 3)}
        # unknown: retry from scratch (fresh solver state), then cvc5
        self.inc_ok = False
        return solve_obligation(ob, self.timeout_ms, use_cvc5)


def cvc5_check(solver, timeout_ms):
    try:
        smt = solver.to_smt2()
        with tempfile.NamedTemporaryFile('w', suffix='.smt2', delete=False) as f:
            # z3 prints its internal split of seq.nth (in-bounds part nth_i, out-of-bounds part nth_u);
            # both are seq.nth for cvc5 (nth = ite(in bounds, nth_i, nth_u))
            smt = smt.replace('seq.nth_i', 'seq.nth').replace('seq.nth_u', 'seq.nth')
            f.write('(set-logic ALL)\n' + smt)
            name = f.name
        try:
            p = subprocess.run(['/usr/bin/cvc5', '--strings-exp', f'--tlimit={timeout_ms}', name],
                               capture_output=True, text=True, timeout=timeout_ms / 1000 + 5)
            out = p.stdout.strip().splitlines()
            return out[0] if out else 'error'
        finally:
            os.unlink(name)
    except Exception as ex:  # noqa: BLE001
        return f'error:{type(ex).__name__}'


def verify_function(src, reg, key, opts=None):
    opts = opts or {}
    res = FnResult(key)
    t0 = time.time()
    contract = reg.get(key)
    fnode = src.node(key)
    fglobs = src.live_fn(key).__globals__
    timeout_ms = opts.get('timeout_ms', QUICK_TIMEOUT_MS)
    max_paths = opts.get('max_paths', 20000)
    only = opts.get('only')
    failed_names = {}        # obligation name -> 'failed' | 'unknown' (first non-discharged status)
    try:
        for label, builder in build_cases(reg, contract, fnode):
            todo = [[]]
            any_feasible = False
            while todo:
                prefix = todo.pop()
                ctx, status = run_path(src, reg, contract, fnode, fglobs, builder, prefix, opts)
                if status == 'vacuous':
                    continue
                # alternatives of every decision this run took beyond its prefix -- also when the run
                # was aborted later (an infeasible tail says nothing about earlier alternatives)
                for i in range(len(prefix), len(ctx.taken)):
                    kk, n, lab = ctx.taken[i]
                    for alt in range(kk + 1, n):
                        if alt in ctx.dead_alts.get(i, ()):
                            continue
                        todo.append([(t[0], t[2], t[1]) for t in ctx.taken[:i]] + [(alt, lab, n)])
                if status == 'infeasible':
                    res.infeasible += 1
                    # the obligations this run emitted beyond its prefix still count: a call-site
                    # precondition that is FALSE on every state of the path makes the path infeasible
                    # once it is assumed -- the obligation itself was emitted before, with its own
                    # (satisfiable) path condition
                    late = [ob for ob in ctx.obls if len(ob.path) >= len(prefix)]
                    if late:
                        inc = IncSolver(ctx.axioms, timeout_ms)
                        pstr = ''.join(str(t[0]) for t in ctx.taken)
                        for ob in late:
                            if (only and not re.search(only, ob.name)) or ob.name in failed_names:
                                continue
                            r = inc.solve(ob, opts.get('cvc5', True))
                            if r['status'] == 'discharged':
                                continue          # (counted on the feasible sibling path, or vacuous)
                            failed_names[ob.name] = r['status']
                            r.update({'name': ob.name, 'kind': ob.kind, 'case': label, 'path': pstr,
                                      'outcome': 'path ends: precondition false'})
                            if ob.info:
                                r['info'] = {k: str(v) for k, v in ob.info.items()}
                            res.obligations.append(r)
                    continue
                any_feasible = True
                res.paths += 1
                if status == 'cut':
                    res.cut_paths += 1
                if res.paths > max_paths:
                    raise Unsupported('path explosion')
                res.contracts_used |= ctx.ghost.get('contracts_used', set())
                res.notes.extend(ctx.notes)
                pstr = ''.join(str(t[0]) for t in ctx.taken)
                inc = IncSolver(ctx.axioms, timeout_ms)
                res.outcomes[ctx.ghost.get('outcome', status)] = res.outcomes.get(ctx.ghost.get('outcome', status), 0) + 1
                for ob in ctx.obls:
                    if only and not re.search(only, ob.name):
                        continue
                    if ob.name in failed_names:
                        # the same obligation already failed on another path: not solved again
                        # (satisfiable queries over byte strings are slow; one failure decides)
                        r = {'status': failed_names[ob.name],
                             'backend': 'not-solved(same obligation %s on another path)' % failed_names[ob.name],
                             'time_s': 0.0}
                        for c_ in ob.pc[inc.n:]:
                            inc.s.add(c_)
                            inc._abs_add(c_)
                        inc.n = max(inc.n, len(ob.pc))
                    elif any(re.search(p_, ob.name) for p_ in opts.get('cheap', ())):
                        r = solve_obligation(ob, 4000, use_cvc5=False)
                        if r['status'] != 'discharged':
                            failed_names[ob.name] = r['status']
                    else:
                        r = inc.solve(ob, opts.get('cvc5', True))
                        if r['status'] != 'discharged':
                            failed_names[ob.name] = r['status']      # 'failed' (refuted) or 'unknown'
                    r.update({'name': ob.name, 'kind': ob.kind, 'case': label, 'path': pstr,
                              'outcome': ctx.ghost.get('outcome', status)})
                    if ob.info:
                        r['info'] = {k: str(v) for k, v in ob.info.items()}
                    if r['status'] != 'discharged' and opts.get('dump_dir'):
                        _dump(ob, opts['dump_dir'], key, len(res.obligations))
                    res.obligations.append(r)
            if not any_feasible:
                res.vacuous.append(label)
    except Unsupported as u:
        res.undecided = str(u)
        if os.environ.get('PYVC_DEBUG'):
            traceback.print_exc()
    except Exception as ex:  # noqa: BLE001
        res.error = f'{type(ex).__name__}: {ex}\n{traceback.format_exc()}'
    res.time_s = time.time() - t0
    return res


def _dump(ob, d, key, n):
    os.makedirs(d, exist_ok=True)
    s = z3.Solver()
    for a in ob.axioms:
        s.add(a)
    for c in ob.pc:
        s.add(c)
    s.add(z3.Not(ob.goal))
    with open(os.path.join(d, f'{key.replace("/", "_")}.{n}.smt2'), 'w') as f:
        f.write(f'; obligation {ob.name}\n' + s.to_smt2())

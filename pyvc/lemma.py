"""pyvc.lemma -- lemma mode (DESIGN.md 2.6): a closed term (builder output -> VM run) is evaluated on
symbolic data with concrete control flow; each path ends with obligations relating the verdict to the
predicate the property states.  Instructions are applied through their sidecar specs (modular) unless
listed in `inline` (control flow: executed from their bodies, because their contracts are deliberately
abstract about what the sub-tape does)."""
from __future__ import annotations
import time
import traceback
import z3
from . import prelude, verify
from .interp import Ctx, Interp, Unsupported, PathAbort, PyRaise, EngineFault
from .state import Mk

VM_INLINE = {
    'functions.run_auth_scripts', 'functions.run_script', 'functions.run_tape',
    'functions.OP_IF', 'functions.OP_IF_ELSE', 'functions.OP_CALL', 'functions.OP_DEF', 'functions.OP_EVAL',
    'functions.OP_TRY_EXCEPT', 'functions.OP_LOOP', 'functions.OP_MERKLEVAL', 'functions.OP_TAPROOT',
    'functions.OP_CHECK_MULTISIG', 'functions.OP_CHECK_MULTISIG_VERIFY', 'functions.run_plugins',
    'functions.run_sig_extensions', 'classes.Tape.reset_pointer', 'classes.Tape.reset',
    'functions.OP_ADD_POINTS', 'functions.OP_ADD_SCALARS', 'functions.OP_SUBTRACT_SCALARS',
    'functions.OP_SUBTRACT_POINTS',
}


def run_lemma(src, reg, name, build, inline=VM_INLINE, opts=None):
    """build(ip, mk): runs the symbolic program and emits obligations with ip.ctx.oblige; may fork.
    Returns {'name', 'obligations': [...], 'paths', 'undecided', 'error', 'time_s'}"""
    opts = opts or {}
    t0 = time.time()
    out = {'name': name, 'obligations': [], 'paths': 0, 'infeasible': 0, 'undecided': None, 'error': None}
    todo = [[]]
    timeout_ms = opts.get('timeout_ms', 30000)
    budget_s = opts.get('budget_s', 900)
    try:
        while todo:
            if any(o['status'] == 'failed' for o in out['obligations']):
                break          # a refuted obligation decides the lemma: no need to explore further
            if time.time() - t0 > budget_s:
                raise Unsupported(f'lemma exceeded its budget of {budget_s} s after {out["paths"]} paths')
            prefix = todo.pop()
            ctx = Ctx(prefix, axioms=(), timeout_ms=opts.get('branch_ms', 2000), fname=name)
            ip = Interp(ctx, src, reg)
            ip.verifying = None
            verify.configure_ip(ip, reg, None)
            ctx.ghost['inline_extra'] = set(inline)
            ctx.ghost['lemma_mode'] = True
            status = 'ok'
            try:
                build(ip, Mk(ip))
            except PathAbort as a:
                status = a.why
            except PyRaise as r:
                raise Unsupported(f'lemma body raised {r.cls.__name__} (lemma functions must catch program '
                                  f'exceptions themselves)')
            for i in range(len(prefix), len(ctx.taken)):
                kk, n, lab = ctx.taken[i]
                for alt in range(kk + 1, n):
                    todo.append([(t[0], t[2], t[1]) for t in ctx.taken[:i]] + [(alt, lab, n)])
            out.setdefault('statuses', []).append((status, ''.join(str(t[0]) for t in ctx.taken)[-40:],
                                                   [t[2] for t in ctx.taken][-6:]))
            if status == 'infeasible':
                out['infeasible'] += 1
                # obligations emitted beyond the prefix still count (a precondition that is false on the
                # whole path makes the path infeasible once assumed)
                inc = verify.IncSolver(ctx.axioms, timeout_ms)
                pstr = ''.join(str(t[0]) for t in ctx.taken)
                for ob in ctx.obls:
                    if len(ob.path) < len(prefix):
                        continue
                    r = inc.solve(ob, opts.get('cvc5', True))
                    if r['status'] != 'discharged':
                        r.update({'name': f'lemma/{name}/{ob.name}', 'kind': 'lemma', 'path': pstr,
                                  'outcome': 'path ends: precondition false'})
                        out['obligations'].append(r)
                continue
            out['paths'] += 1
            if out['paths'] > opts.get('max_paths', 4000):
                raise Unsupported('path explosion in lemma')
            inc = verify.IncSolver(ctx.axioms, timeout_ms)
            pstr = ''.join(str(t[0]) for t in ctx.taken)
            for ob in ctx.obls:
                r = inc.solve(ob, opts.get('cvc5', True))
                r.update({'name': f'lemma/{name}/{ob.name}', 'kind': 'lemma', 'path': pstr, 'outcome': status})
                if ob.info:
                    r['info'] = {k: str(v) for k, v in ob.info.items()}
                out['obligations'].append(r)
    except Unsupported as u:
        out['undecided'] = str(u)
    except EngineFault as e:
        out['error'] = f'EngineFault: {e}'
    except Exception as ex:  # noqa: BLE001
        out['error'] = f'{type(ex).__name__}: {ex}\n{traceback.format_exc()}'
    out['time_s'] = round(time.time() - t0, 2)
    return out

"""pyvc.vocab_sym -- logical counterparts of the contract vocabulary (see vocab.py)."""
from __future__ import annotations
import z3
from . import sym, vocab, models
from .sym import (SB, SStr, SV, ZList, HDict, HObj, VAL, I, BYTES, STR, zint, zbool, fresh, sym_bytes, is_bytes,
                  bexpr, blen, is_z3)
from .interp import Unsupported, AstFunc, Env, is_concrete
from .heap import same_value


def _always(f):
    f.always = True
    return f


def _eval_lambda_nofork(ip, f, args, guard=None):
    """evaluate a sidecar lambda / function on args; no forks, raises or heap writes allowed"""
    box = {}

    def run(scratch):
        box['v'] = ip.call(f, args, {})
        return scratch.vars
    g = ip.ctx.ghost
    g['logic_mode'] = g.get('logic_mode', 0) + 1
    try:
        out = ip.speculate(run, Env({}), guard if guard is not None else z3.BoolVal(True))
    finally:
        g['logic_mode'] -= 1
    if out is None:
        if getattr(ip, 'last_spec_vacuous', False):
            return True       # evaluated under a guard that is infeasible on this path: vacuous
        raise Unsupported('quantifier / implication body is not a pure expression')
    return box['v']


@_always
def m_forall(ip, lo, hi, f):
    lo, hi = ip.resolve(lo), ip.resolve(hi)
    if isinstance(lo, int) and isinstance(hi, int) and hi - lo <= 64:
        cs = [ip.truth(ip.call(f, [i], {})) for i in range(lo, hi)]
        if any(c is False for c in cs):
            return False
        cs = [zbool(c) for c in cs if c is not True]
        return z3.And(*cs) if cs else True
    i = fresh('q', I)
    rng = z3.And(zint(lo) <= i, i < zint(hi))
    body = ip.truth(_eval_lambda_nofork(ip, f, [i], rng))
    return z3.ForAll([i], z3.Implies(rng, zbool(body)))


@_always
def m_exists(ip, lo, hi, f):
    lo, hi = ip.resolve(lo), ip.resolve(hi)
    if isinstance(lo, int) and isinstance(hi, int) and hi - lo <= 64:
        cs = [ip.truth(ip.call(f, [i], {})) for i in range(lo, hi)]
        if any(c is True for c in cs):
            return True
        cs = [zbool(c) for c in cs if c is not False]
        return z3.Or(*cs) if cs else False
    i = fresh('q', I)
    rng = z3.And(zint(lo) <= i, i < zint(hi))
    body = ip.truth(_eval_lambda_nofork(ip, f, [i], rng))
    return z3.Exists([i], z3.And(rng, zbool(body)))


@_always
def m_implies(ip, a, b):
    ta = ip.truth(a)
    if ta is False:
        return True
    if isinstance(b, AstFunc) or callable(b) and not isinstance(b, (bool, int)) and not is_z3(b):
        if ta is True:
            return ip.truth(ip.call(b, [], {}))
        v = ip.truth(_eval_lambda_nofork(ip, b, [], zbool(ta)))
    else:
        v = ip.truth(b)
    if ta is True:
        return v
    return z3.Implies(zbool(ta), zbool(v))


@_always
def m_ite(ip, c, a, b):
    t = ip.truth(c)
    if isinstance(t, bool):
        return a if t else b
    r = ip.ite(t, ip.resolve(a), ip.resolve(b))
    if type(r).__name__ == '_Missing':
        raise Unsupported('ite on values of different kinds')
    return r


@_always
def m_ubig(ip, b):
    return models.int_from_bytes_model(ip, b, 'big')


@_always
def m_ulittle(ip, b):
    return models.int_from_bytes_model(ip, b, 'little')


@_always
def m_pow2(ip, n):
    n = ip.resolve(n)
    if isinstance(n, int):
        return 1 << n
    return models.mk_pow2(ip, n)


@_always
def m_sdecode(ip, b):
    b = ip.resolve(b)
    if isinstance(b, bytes):
        return vocab.sdecode(b)
    n = blen(b)
    u = models.int_from_bytes_model(ip, b, 'big')
    n8 = 8 * n if isinstance(n, int) else 8 * zint(n)
    return z3.If(zint(u) >= m_pow2(ip, n8 - 1), zint(u) - m_pow2(ip, n8), zint(u))


@_always
def m_bitlen(ip, n):
    n = ip.resolve(n)
    if isinstance(n, int):
        return n.bit_length()
    return models.mk_bitlen(ip, n)


@_always
def m_sha256(ip, b):
    return models.hash_digest(ip, models.HashObj('sha256', b))


@_always
def m_sha512(ip, b):
    return models.hash_digest(ip, models.HashObj('sha512', b))


@_always
def m_shake256(ip, b, n):
    return models.hash_digest(ip, models.HashObj('shake_256', b), n)


@_always
def m_is_kb(ip, k):
    return is_bytes(ip.resolve(k))


@_always
def m_is_ks(ip, k):
    return isinstance(ip.resolve(k), (str, SStr))


@_always
def m_is_ki(ip, k):
    k = ip.resolve(k)
    return isinstance(k, int) and not isinstance(k, bool) or sym.is_sym_int(k)


@_always
def m_same(ip, a, b):
    """contents equal; quantified (usable as assumption and as goal)"""
    a, b = ip.resolve(a), ip.resolve(b)
    if isinstance(a, ZList) and isinstance(b, ZList):
        j = fresh('q', I)
        return z3.And(zint(a.ln) == zint(b.ln),
                      z3.ForAll([j], z3.Implies(z3.And(j >= 0, j < zint(a.ln)),
                                                z3.Select(a.arr, j) == z3.Select(b.arr, j))))
    if isinstance(a, HDict) and isinstance(b, HDict):
        return m_dict_same(ip, a, b)
    out = []
    same_value(ip, a, b, 'same', out)
    cs = [c for _, c in out]
    return z3.And(*cs) if cs else True


def _space_same(d0, d1, sp):
    return d0.maps[sp] == d1.maps[sp]


@_always
def m_str_keys_same(ip, d0, d1):
    d0, d1 = _as_hdict(ip, d0), _as_hdict(ip, d1)
    return _space_same(d0, d1, 's')


@_always
def m_strint_keys_same(ip, d0, d1):
    d0, d1 = _as_hdict(ip, d0), _as_hdict(ip, d1)
    return z3.And(_space_same(d0, d1, 's'), _space_same(d0, d1, 'i'))


@_always
def m_dict_same(ip, d0, d1):
    d0, d1 = _as_hdict(ip, d0), _as_hdict(ip, d1)
    return z3.And(*[_space_same(d0, d1, sp) for sp in HDict.SPACES])


@_always
def m_bytes_keys_same_except(ip, d0, d1, keys):
    d0, d1 = _as_hdict(ip, d0), _as_hdict(ip, d1)
    k = fresh('kb', BYTES)
    ex = [k != bexpr(x) for x in ip.iter_concrete(keys)]
    return z3.ForAll([k], z3.Implies(z3.And(*ex) if ex else z3.BoolVal(True),
                                     z3.Select(d0.maps['b'], k) == z3.Select(d1.maps['b'], k)))


def _as_hdict(ip, d):
    d = ip.resolve(d)
    if isinstance(d, dict):
        return models.hdict_from_concrete(ip, d)
    if not isinstance(d, HDict):
        raise Unsupported('dict predicate on non-dict')
    return d


@_always
def m_items_of(ip, stack):
    d = stack.f['deque']
    return ZList('bytes', d.arr, d.ln, kind='list')


@_always
def m_all_bytes_items(ip, seq, max_len):
    seq = ip.resolve(seq)
    if isinstance(seq, ZList) and seq.elem == 'bytes':
        j = fresh('q', I)
        return z3.ForAll([j], z3.Implies(z3.And(j >= 0, j < zint(seq.ln)),
                                         z3.Length(z3.Select(seq.arr, j)) <= zint(max_len)))
    raise Unsupported('all_bytes_items on non-list')


@_always
def m_use_lemma(ip, name, *terms):
    from . import prelude
    for ax in prelude.instantiate(name, [ip.resolve(t) for t in terms], ip):
        ip.ctx.assume(ax)
    return True


@_always
def m_cover(ip, label):
    ip.ctx.notes.append(('cover', label, tuple(t[0] for t in ip.ctx.taken)))
    return True


def install():
    pairs = {
        vocab.forall: m_forall, vocab.exists: m_exists, vocab.implies: m_implies, vocab.ite: m_ite,
        vocab.ubig: m_ubig, vocab.ulittle: m_ulittle, vocab.pow2: m_pow2, vocab.sdecode: m_sdecode,
        vocab.bitlen: m_bitlen, vocab.sha256: m_sha256, vocab.sha512: m_sha512, vocab.shake256: m_shake256,
        vocab.is_kb: m_is_kb, vocab.is_ks: m_is_ks, vocab.is_ki: m_is_ki, vocab.same: m_same,
        vocab.str_keys_same: m_str_keys_same, vocab.strint_keys_same: m_strint_keys_same,
        vocab.dict_same: m_dict_same, vocab.bytes_keys_same_except: m_bytes_keys_same_except,
        vocab.items_of: m_items_of, vocab.all_bytes_items: m_all_bytes_items, vocab.use_lemma: m_use_lemma,
        vocab.cover: m_cover,
    }
    for k, v in pairs.items():
        models.register_model(k, v)


install()


# ---- closed forms ---------------------------------------------------------------------------------
sdec_f = z3.Function('sdec', BYTES, I)          # two's-complement value of a byte string
_psum = None


def rec_funs():
    """recursive spec functions over (array, top index, count): sum / difference / product of the
    decoded top `k` items, item j being arr[top - j]"""
    global _psum
    if _psum is None:
        arr = z3.Const('arr!r', sym.ARR_IB)
        top, k = z3.Ints('top!r k!r')
        ps = z3.RecFunction('psum', sym.ARR_IB, I, I, I)
        z3.RecAddDefinition(ps, [arr, top, k],
                            z3.If(k <= 0, z3.IntVal(0), ps(arr, top, k - 1) + sdec_f(z3.Select(arr, top - (k - 1)))))
        pp = z3.RecFunction('pprod', sym.ARR_IB, I, I, I)
        z3.RecAddDefinition(pp, [arr, top, k],
                            z3.If(k <= 0, z3.IntVal(1), pp(arr, top, k - 1) * sdec_f(z3.Select(arr, top - (k - 1)))))
        _psum = {'sum': ps, 'prod': pp}
    return _psum


@_always
def m_take_top(ip, stack, n):
    d = stack.f['deque']
    n = ip.resolve(n)
    if d.items is not None and not isinstance(n, int) and sym.concrete_int(n) is not None:
        n = sym.concrete_int(n)
    if d.items is not None and isinstance(n, int):
        # concrete-length stack (lemma mode): the items themselves, in the order they are popped
        from .models import raise_
        if n > len(d.items):
            raise_(IndexError, 'pop from an empty deque')
        ip.heap_write_guard()
        return ZList('bytes', kind='list', items=[d.items.pop() for _ in range(max(n, 0))])
    if not ip.ctx.branch(zint(n) <= zint(d.ln), 'enough items'):
        from .models import raise_
        raise_(IndexError, 'pop from an empty deque')
    L = zint(d.ln)
    arr = top_view(d.arr, L)
    ip.heap_write_guard()
    nn = z3.If(zint(n) < 0, 0, zint(n)) if not isinstance(n, int) else max(n, 0)
    d.ln = z3.simplify(L - nn)
    return ZList('bytes', arr, z3.simplify(zint(nn)), kind='list')


@_always
def m_put_all(ip, stack, items):
    from .models import raise_
    from tapescript.errors import ScriptExecutionError
    d = stack.f['deque']
    items = ip.resolve(items)
    if isinstance(items, (list, tuple)):
        for it in items:
            ip.call_method(stack, 'put', [it], {})
        return None
    if isinstance(items, ZList) and items.items is not None:
        for it in list(items.items):
            ip.call_method(stack, 'put', [it], {})
        return None
    if not (isinstance(items, ZList) and items.elem == 'bytes'):
        raise Unsupported('put_all of non-list')
    j = fresh('q', I)
    n = zint(items.ln)
    fits = z3.ForAll([j], z3.Implies(z3.And(j >= 0, j < n),
                                     z3.Length(z3.Select(items.arr, j)) <= zint(stack.f['max_item_size'])))
    room = z3.Or(n <= 0, zint(d.ln) + n <= zint(stack.f['max_items']))
    if not ip.ctx.branch(z3.And(fits, room), 'all fit'):
        raise_(ScriptExecutionError, 'stack limit')
    ip.heap_write_guard()
    L = zint(d.ln)
    jj = z3.Const('j!pa', I)
    d.arr = z3.Lambda([jj], z3.If(z3.And(jj >= L, jj < L + n), z3.Select(items.arr, jj - L), z3.Select(d.arr, jj)))
    d.ln = z3.simplify(L + z3.If(n < 0, 0, n))
    return None


def _items_arr(ip, items):
    items = ip.resolve(items)
    if isinstance(items, ZList):
        return items.arr, zint(items.ln)
    if isinstance(items, (list, tuple)):
        arr = z3.K(I, z3.Empty(BYTES))
        for i, x in enumerate(items):
            arr = z3.Store(arr, i, bexpr(x))
        return arr, z3.IntVal(len(items))
    raise Unsupported('list expected')


@_always
def m_all_nonempty(ip, items):
    arr, n = _items_arr(ip, items)
    j = fresh('q', I)
    return z3.ForAll([j], z3.Implies(z3.And(j >= 0, j < n), z3.Length(z3.Select(arr, j)) > 0))


@_always
def m_fresh_bytes(ip, tag, n):
    k = ip.ctx.count('fresh:' + str(tag))
    e = z3.Const(f'fresh_{tag}#{k}', BYTES)
    ip.ctx.define(z3.Implies(zint(n) >= 0, z3.Length(e) == zint(n)), lenfact=True)
    cn = sym.concrete_int(n)
    return sym_bytes(e, cn if cn is not None else zint(n))


@_always
def m_repeat(ip, item, n):
    n = ip.resolve(n)
    item = ip.resolve(item)
    if isinstance(n, int):
        return [item] * n
    return ZList('bytes', z3.K(I, bexpr(item)), z3.If(zint(n) < 0, 0, zint(n)), kind='list')


@_always
def m_top_items(ip, stack, n):
    d = stack.f['deque']
    return ZList('bytes', top_view(d.arr, zint(d.ln)), zint(n) if not isinstance(n, int) else n, kind='list')


def top_view(arr, L):
    """the list (top first) seen from the top of a stack array of length L"""
    j = z3.Const('j!top', I)
    return z3.Lambda([j], z3.Select(arr, z3.simplify(L - 1) - j))


isum_f = z3.Function('isum', sym.ARR_IB, I, I)     # sum_{j<k} sdec(arr[j])
iprod_f = z3.Function('iprod', sym.ARR_IB, I, I)   # prod_{j<k} sdec(arr[j])


def _fold_term(ip, f, arr, n, unit, op):
    """f(arr, n) with its one-step unfolding as ground facts (the function is DEFINED by these
    equations; every term created gets its own instance)"""
    t = f(arr, n)
    seen = ip.ctx.ghost.setdefault('fold_terms', [])
    if any(x.eq(t) for x in seen):
        return t
    seen.append(t)
    ip.ctx.define(z3.Implies(n <= 0, t == unit))
    if op is not None:
        prev = f(arr, n - 1)
        last = sdec_f(z3.Select(arr, n - 1))
        ip.ctx.define(z3.Implies(n > 0, t == op(prev, last)))
    return t


def _rec(name):
    return rec_list_funs()[name]


_recl = None


def rec_list_funs():
    """recursive spec functions over (array, count): isum(arr,k) = sum_{j<k} sdec(arr[j]),
    iprod likewise"""
    global _recl
    if _recl is None:
        arr = z3.Const('arr!r', sym.ARR_IB)
        k = z3.Int('k!r')
        ps = z3.RecFunction('isum', sym.ARR_IB, I, I)
        z3.RecAddDefinition(ps, [arr, k], z3.If(k <= 0, z3.IntVal(0), ps(arr, k - 1) + sdec_f(z3.Select(arr, k - 1))))
        pp = z3.RecFunction('iprod', sym.ARR_IB, I, I)
        z3.RecAddDefinition(pp, [arr, k], z3.If(k <= 0, z3.IntVal(1), pp(arr, k - 1) * sdec_f(z3.Select(arr, k - 1))))
        _recl = {'sum': ps, 'prod': pp}
    return _recl


def _sdec_term(ip, b):
    """sdec(b) with its definition as a ground fact"""
    e = bexpr(b)
    t = sdec_f(e)
    n = blen(b)
    u = models.int_from_bytes_model(ip, b, 'big')
    n8 = 8 * n if isinstance(n, int) else 8 * zint(n)
    ip.ctx.define(z3.Implies(zint(n) >= 1 if not isinstance(n, int) else z3.BoolVal(n >= 1),
                             t == z3.If(zint(u) >= m_pow2(ip, n8 - 1), zint(u) - m_pow2(ip, n8), zint(u))))
    return t


@_always
def m_sdecode2(ip, b):
    b = ip.resolve(b)
    if isinstance(b, bytes):
        return vocab.sdecode(b)
    return _sdec_term(ip, b)


@_always
def m_int_sum(ip, items):
    arr, n = _items_arr(ip, items)
    return _fold_term(ip, isum_f, arr, z3.simplify(n), z3.IntVal(0), lambda a, b: a + b)


@_always
def m_int_prod(ip, items):
    arr, n = _items_arr(ip, items)
    return _fold_term(ip, iprod_f, arr, z3.simplify(n), z3.IntVal(1), None)   # unfold on request: iprod_step


iprodc_f = z3.Function('iprodc', I, sym.ARR_IB, I, I)    # c * prod_{j<k} sdec(arr[j])


@_always
def m_int_prod_from(ip, c, items):
    arr, n = _items_arr(ip, items)
    n = z3.simplify(n)
    t = iprodc_f(zint(c), arr, n)
    ip.ctx.define(z3.Implies(n <= 0, t == zint(c)))
    return t


@_always
def m_imin(ip, a, b):
    a, b = ip.resolve(a), ip.resolve(b)
    if isinstance(a, int) and isinstance(b, int):
        return min(a, b)
    return z3.If(zint(a) < zint(b), zint(a), zint(b))


ref_len = z3.Function('ref_len', I, I)                       # length of the list behind a reference
ref_arr = z3.Function('ref_arr', I, sym.ARR_IV)             # its elements


def _native_entry(ip, d, k):
    """(found, value) when the dict is a python dict and the key concrete"""
    d = ip.resolve(d)
    k = ip.resolve(k)
    if isinstance(d, dict) and is_concrete(k):
        return True, (d[k] if k in d else _ABSENT)
    return False, None


_ABSENT = object()


def _entry(ip, d, k):
    d = _as_hdict(ip, d)
    sp, ke = models.key_space(ip, k)
    return z3.Select(d.maps[sp], ke)


@_always
def m_is_bytes_or_absent(ip, d, k):
    found, v = _native_entry(ip, d, k)
    if found:
        return v is _ABSENT or (is_bytes(v))
    v = _entry(ip, d, k)
    return z3.Or(VAL.is_absent(v), VAL.is_vbytes(v))


@_always
def m_is_bool_or_absent(ip, d, k):
    found, v = _native_entry(ip, d, k)
    if found:
        return v is _ABSENT or (isinstance(v, bool) or sym.is_sym_bool(v))
    v = _entry(ip, d, k)
    return z3.Or(VAL.is_absent(v), VAL.is_vbool(v))


@_always
def m_is_int_or_absent(ip, d, k):
    found, v = _native_entry(ip, d, k)
    if found:
        return v is _ABSENT or ((isinstance(v, int) and not isinstance(v, bool)) or sym.is_sym_int(v))
    v = _entry(ip, d, k)
    return z3.Or(VAL.is_absent(v), VAL.is_vint(v))


@_always
def m_is_list_or_absent(ip, d, k):
    found, v = _native_entry(ip, d, k)
    if found:
        return v is _ABSENT or (isinstance(v, (list, ZList)))
    v = _entry(ip, d, k)
    # a list is stored as an object reference, or -- a python list of bytes converted with its dict -- as a
    # list value
    return z3.Or(VAL.is_absent(v), VAL.is_vref(v), VAL.is_vblist(v))


@_always
def m_list_len_at(ip, d, k):
    found, v = _native_entry(ip, d, k)
    if found:
        return 0 if v is _ABSENT else models.m_len(ip, v)
    v = _entry(ip, d, k)
    return z3.If(VAL.is_vref(v), ref_len(VAL.r(v)), z3.If(VAL.is_vblist(v), VAL.ll(v), 0))


@_always
def m_calls(ip, name):
    c = ip.ctx.ghost.get('body_counters')
    if c is None:
        c = ip.ctx.counters
    return c.get('apply:functions.' + name, 0)


@_always
def m_ed_verify(ip, key, message, sig):
    from . import crypto
    return crypto.ed_verify(bexpr(ip.resolve(key)), bexpr(ip.resolve(message)), bexpr(ip.resolve(sig)))


@_always
def m_ed_sign(ip, seed, message):
    from . import crypto
    e = crypto.ed_sign(bexpr(ip.resolve(seed)), bexpr(ip.resolve(message)))
    ip.ctx.define(z3.Length(e) == 64, lenfact=True)
    return sym_bytes(e, 64)


zeros_f = z3.Function('zeros', I, BYTES)


@_always
def m_zeros(ip, n):
    n = ip.resolve(n)
    if isinstance(n, int):
        return b'\x00' * n
    n = z3.simplify(zint(n))
    t = zeros_f(n)
    ip.ctx.define(z3.Length(t) == z3.If(n < 0, 0, n))
    ip.ctx.define(z3.Implies(n <= 0, t == z3.Empty(BYTES)))
    return sym_bytes(t, z3.If(n < 0, 0, n))


@_always
def m_all_values_refs(ip, d):
    d = _as_hdict(ip, d)
    k = fresh('kb', BYTES)
    v = z3.Select(d.maps['b'], k)
    return z3.ForAll([k], z3.Or(VAL.is_absent(v), VAL.is_vref(v)), patterns=[v])


@_always
def m_concrete_len(ip, x):
    x = ip.resolve(x)
    return isinstance(x, (list, tuple)) or (isinstance(x, ZList) and sym.concrete_int(x.ln) is not None)


@_always
def m_strint_part(ip, d):
    d = _as_hdict(ip, d)
    r = models.hdict_copy(ip, d)
    r.maps['b'] = z3.K(BYTES, VAL.absent)
    return r


@_always
def m_dict_same_except(ip, d0, d1, key):
    d0, d1 = _as_hdict(ip, d0), _as_hdict(ip, d1)
    sp, ke = models.key_space(ip, key)
    cs = []
    for s_, srt in HDict.SPACES.items():
        if s_ == sp:
            cs.append(z3.Store(d0.maps[s_], ke, VAL.absent) == z3.Store(d1.maps[s_], ke, VAL.absent))
        else:
            cs.append(d0.maps[s_] == d1.maps[s_])
    return z3.And(*cs)


_OPAQUE_FNS = {}


@_always
def m_defined(ip, name, f, *args):
    if name not in (ip.ctx.ghost.get('opaque_defs') or ()):
        return ip.truth(ip.call(f, list(args), {}))
    zs = []
    for a in args:
        a = ip.resolve(a)
        if isinstance(a, HDict) and getattr(a, 'proj_keys', None) is not None:
            zs.extend(z3.simplify(z3.Select(a.maps['s'], z3.StringVal(k))) for k in a.proj_keys)
        elif isinstance(a, HDict):
            zs.extend(a.maps[sp] for sp in sorted(a.maps))
        elif isinstance(a, bool):
            zs.append(z3.BoolVal(a))
        elif isinstance(a, int) or sym.is_sym_int(a):
            zs.append(zint(a))
        elif is_bytes(a):
            zs.append(bexpr(a))
        elif z3.is_bool(a):
            zs.append(a)
        else:
            raise Unsupported(f'defined({name}): argument of kind {type(a).__name__}')
    key = (name, tuple(str(z.sort()) for z in zs))
    fn = _OPAQUE_FNS.get(key)
    if fn is None:
        fn = z3.Function(f'def_{name}', *[z.sort() for z in zs], z3.BoolSort())
        _OPAQUE_FNS[key] = fn
    return fn(*zs)


@_always
def m_restrict_str(ip, d, keys):
    d = ip.resolve(d)
    keys = [str(k) for k in ip.iter_concrete(keys)]
    if isinstance(d, dict):
        d = models.hdict_from_concrete(ip, d)
    if not isinstance(d, HDict):
        raise Unsupported('restrict_str of a non-dict')
    maps = {sp: z3.K(srt, VAL.absent) for sp, srt in HDict.SPACES.items()}
    for k in keys:
        maps['s'] = z3.Store(maps['s'], z3.StringVal(k), z3.Select(d.maps['s'], z3.StringVal(k)))
    r = HDict(d.name + '|keys', maps)
    r.proj_keys = tuple(keys)
    return r


@_always
def m_lemma_point(ip, name, *values):
    cb = (ip.ctx.ghost.get('lemma_points') or {}).get(name)
    if cb is None:
        raise Unsupported(f'lemma_point({name}) reached but the lemma states no claim for it')
    if ip.ctx.ghost.get('speculating', 0):
        ip.heap_write_guard()
    cb(ip, *values)
    return None


@_always
def m_unknown_bool(ip, tag):
    return z3.Bool(f'unk_{tag}#{ip.ctx.count("unk:" + str(tag))}')


def install2():
    models.register_model(vocab.defined, m_defined)
    models.register_model(vocab.unknown_bool, m_unknown_bool)
    models.register_model(vocab.restrict_str, m_restrict_str)
    models.register_model(vocab.lemma_point, m_lemma_point)
    models.register_model(vocab.dict_same_except, m_dict_same_except)
    models.register_model(vocab.strint_part, m_strint_part)
    models.register_model(vocab.concrete_len, m_concrete_len)
    models.register_model(vocab.zeros, m_zeros)
    models.register_model(vocab.all_values_refs, m_all_values_refs)
    models.register_model(vocab.is_bytes_or_absent, m_is_bytes_or_absent)
    models.register_model(vocab.is_bool_or_absent, m_is_bool_or_absent)
    models.register_model(vocab.is_int_or_absent, m_is_int_or_absent)
    models.register_model(vocab.is_list_or_absent, m_is_list_or_absent)
    models.register_model(vocab.list_len_at, m_list_len_at)
    models.register_model(vocab.calls, m_calls)
    models.register_model(vocab.ed_verify, m_ed_verify)
    models.register_model(vocab.ed_sign, m_ed_sign)
    models.register_model(vocab.repeat, m_repeat)
    models.register_model(vocab.top_items, m_top_items)
    models.register_model(vocab.sdecode, m_sdecode2)
    models.register_model(vocab.int_sum, m_int_sum)
    models.register_model(vocab.int_prod, m_int_prod)
    models.register_model(vocab.imin, m_imin)
    models.register_model(vocab.int_prod_from, m_int_prod_from)
    models.register_model(vocab.take_top, m_take_top)
    models.register_model(vocab.put_all, m_put_all)
    models.register_model(vocab.all_nonempty, m_all_nonempty)
    models.register_model(vocab.fresh_bytes, m_fresh_bytes)


install2()

"""pyvc.abstract -- abstraction of sequence THEORY symbols for the PATH solver only.

The path solver decides which branches to explore.  Satisfiable checks over z3 sequences are slow
(models with 64-byte strings are built byte by byte), which made exploration slow and, worse,
time-out dependent.  Every formula given to the path solver is therefore rewritten so that no
interpreted sequence operation remains; byte strings become values of an opaque sort as far as the
solver is concerned:

  Concat / Unit / Empty / Extract / At terms   -> a constant of sort Bytes per term
  Length(t)                                    -> exact integer terms where the structure is known
                                                  (sum for Concat, clamp for Extract, 1, 0, If),
                                                  otherwise LEN(t') with LEN uninterpreted, >= 0
  Nth(t, i)                                    -> a BitVec(8) constant per term
  Contains / PrefixOf / ... atoms              -> a boolean constant per atom
  quantified formulas                          -> a boolean constant per formula
  everything else (equalities, arrays, datatypes, uninterpreted functions, arithmetic, bit-vectors)
  is kept, over the rewritten arguments.

Any model of the original formula yields a model of the rewritten one (interpret each new constant as
the value of the term it stands for), so `infeasible` answers stay correct; a `feasible` answer may
be wrong, which only costs an explored path whose obligations still carry the exact path condition.
Obligations never use this abstraction.
"""
from __future__ import annotations
import z3

I = z3.IntSort()
B = z3.BoolSort()
BYTE = z3.BitVecSort(8)
BYTES = z3.SeqSort(BYTE)
LEN = z3.Function('LEN!abs', BYTES, I)
NTH = z3.Function('NTH!abs', BYTES, I, BYTE)

_SEQ_BUILD = {z3.Z3_OP_SEQ_CONCAT, z3.Z3_OP_SEQ_UNIT, z3.Z3_OP_SEQ_EMPTY, z3.Z3_OP_SEQ_EXTRACT, z3.Z3_OP_SEQ_AT,
              z3.Z3_OP_SEQ_REPLACE}
_SEQ_PRED = {z3.Z3_OP_SEQ_CONTAINS, z3.Z3_OP_SEQ_PREFIX, z3.Z3_OP_SEQ_SUFFIX}
_SEQ_OTHER = {z3.Z3_OP_SEQ_INDEX, z3.Z3_OP_SEQ_NTH}


def is_bytes_term(t):
    return z3.is_seq(t) and t.sort() == BYTES


class SeqAbs:
    def __init__(self):
        self.memo = {}      # key -> (ast kept alive, abstraction)
        self.n = 0
        self.side = []      # facts about introduced symbols (returned once)
        self.hs = {}

    def _const(self, sort, tag):
        self.n += 1
        return z3.Const(f'{tag}!a{self.n}', sort)

    def facts(self):
        f, self.side = self.side, []
        return f

    def needs(self, t):
        """does t contain an interpreted sequence symbol or a quantifier?"""
        i = t.get_id()
        r = self.hs.get(i)
        if r is not None:
            return r[1]
        if z3.is_quantifier(t):
            r = True
        elif z3.is_app(t) and self.seq_symbol(t):
            r = True
        else:
            r = any(self.needs(c) for c in t.children())
        self.hs[i] = (t, r)
        return r

    @staticmethod
    def seq_symbol(t):
        """is the head of t an interpreted symbol of the sequence theory over Bytes?"""
        nm = t.decl().name()
        if not (nm.startswith('seq.') or nm.startswith('str.')):
            return False
        return is_bytes_term(t) or any(is_bytes_term(c) for c in t.children())

    def length(self, t):
        """integer abstraction of Length(t), t a bytes term of the ORIGINAL formula"""
        key = ('L', t.get_id())
        hit = self.memo.get(key)
        if hit is not None:
            return hit[1]
        k = t.decl().kind() if z3.is_app(t) else None
        if z3.is_app(t) and self.seq_symbol(t) and k not in (z3.Z3_OP_SEQ_CONCAT, z3.Z3_OP_SEQ_UNIT,
                                                              z3.Z3_OP_SEQ_EMPTY, z3.Z3_OP_SEQ_EXTRACT):
            r = LEN(self.rw(t))
            self.side.append(r >= 0)
        elif k == z3.Z3_OP_SEQ_CONCAT:
            r = z3.Sum([self.length(c) for c in t.children()])
        elif k == z3.Z3_OP_SEQ_UNIT:
            r = z3.IntVal(1)
        elif k == z3.Z3_OP_SEQ_EMPTY:
            r = z3.IntVal(0)
        elif k == z3.Z3_OP_SEQ_EXTRACT:
            s, off, n = t.children()
            ls, o, nn = self.length(s), self.rw(off), self.rw(n)
            r = z3.If(z3.And(o >= 0, o < ls, nn > 0), z3.If(nn < ls - o, nn, ls - o), 0)
        elif k == z3.Z3_OP_ITE:
            c, a, b = t.children()
            r = z3.If(self.rw(c), self.length(a), self.length(b))
        else:
            r = LEN(self.rw(t))
            self.side.append(r >= 0)
        self.memo[key] = (t, r)
        return r

    def rw(self, t):
        key = ('R', t.get_id())
        hit = self.memo.get(key)
        if hit is not None:
            return hit[1]
        if not self.needs(t):
            r = t
        elif z3.is_quantifier(t):
            r = self._const(B, 'q') if not t.is_lambda() else self._const(t.sort(), 'lam')
        else:
            k = t.decl().kind()
            ch = t.children()
            if k == z3.Z3_OP_SEQ_LENGTH and is_bytes_term(ch[0]):
                r = self.length(ch[0])
            elif t.decl().name() in ('seq.nth', 'seq.nth_i', 'seq.nth_u') and len(ch) == 2 and is_bytes_term(ch[0]):
                r = NTH(self.rw(ch[0]), self.rw(ch[1]))      # uninterpreted: congruence on (string, index)
            elif self.seq_symbol(t):
                if is_bytes_term(t):
                    r = self._const(BYTES, 'seq')
                    self.side.append(LEN(r) == self.length(t))
                elif z3.is_bool(t):
                    r = self._const(B, 'atom')
                else:
                    r = self._const(t.sort(), 'nth')
            else:
                r = t.decl()(*[self.rw(c) for c in ch])
        self.memo[key] = (t, r)
        return r

    def form(self, f):
        return self.rw(f)

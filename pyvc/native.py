"""pyvc.native -- the same contract text run natively: counterexample replay and run-time monitoring.

replay(key, inputs): build real objects from a concretised model, run the REAL function on one copy
and the sidecar spec on another, compare outcome and final state, evaluate the `ensures` clauses.
"""
from __future__ import annotations
import copy
import os
import sys
import traceback

ROOT = os.path.dirname(os.path.dirname(os.path.abspath(__file__)))


def _py(v):
    t = v[0]
    if t == 'int':
        return v[1]
    if t == 'bool':
        return v[1]
    if t == 'bytes':
        return bytes.fromhex(v[1])
    if t == 'str':
        return v[1]
    if t == 'none':
        return None
    if t == 'list':
        return [bytes.fromhex(x) for x in v[1]]
    if t == 'tuple':
        return tuple(bytes.fromhex(x) for x in v[1])
    if t == 'other':
        return object()
    raise KeyError(t)


def _dict(inputs, name):
    d = {}
    for sp in ('s', 'b', 'i'):
        ent = inputs.get(f'{name}_{sp}')
        if not ent or ent[0] != 'dict':
            continue
        for k, v in ent[1]:
            if v[0] == 'absent':
                continue
            try:
                d[_py(k)] = _py(v)
            except KeyError:
                pass
    return d


def build_args(key, inputs, src, reg):
    from tapescript.classes import Tape, Stack
    c = reg.get(key)
    decl = c.params
    par = c
    while decl is None and par is not None and par.extends:
        par = reg.get(par.extends)
        decl = par.params if par is not None else None
    fnode = src.node(key)
    names = [a.arg for a in fnode.args.args]
    args = {}
    for n in names:
        d = (decl or {}).get(n)
        if d == 'Tape':
            t = Tape(_py(inputs.get(f'{n}_data', ('bytes', ''))), pointer=_py(inputs.get(f'{n}_pointer', ('int', 0))),
                     callstack_limit=_py(inputs.get(f'{n}_cs_limit', ('int', 128))),
                     callstack_count=_py(inputs.get(f'{n}_cs_count', ('int', 0))))
            t.flags = _dict(inputs, f'{n}_flags')
            t.definitions = {}
            t.contracts = {}
            t.plugins = {k: [] for k in _dict(inputs, f'{n}_plugins') if isinstance(k, str)}
            args[n] = t
        elif d == 'Stack':
            mi = _py(inputs.get(f'{n}_max_items', ('int', 1024)))
            ms = _py(inputs.get(f'{n}_max_item_size', ('int', 1024)))
            s = Stack(max(mi, 0), ms)
            ent = inputs.get(f'{n}_arr')
            if ent and ent[0] == 'items':
                for x in ent[1]:
                    s.deque.append(bytes.fromhex(x))
            args[n] = s
        elif d in ('Cache', 'dict'):
            args[n] = _dict(inputs, n)
        elif n in inputs:
            args[n] = _py(inputs[n])
        elif d == 'bool':
            args[n] = False
        elif d in ('int', 'nat'):
            args[n] = 0
        elif isinstance(d, str) and d.startswith('bytes'):
            args[n] = b''
        elif d == 'any':
            args[n] = b''
        else:
            raise KeyError(f'cannot build argument {n} ({d})')
    return args


def snapshot_state(args):
    out = {}
    for n, v in args.items():
        if type(v).__name__ == 'Stack':
            out[n] = ('Stack', list(v.deque), v.max_items, v.max_item_size, v.deque.maxlen)
        elif type(v).__name__ == 'Tape':
            out[n] = ('Tape', v.data, v.pointer, v.callstack_limit, v.callstack_count, dict(v.flags),
                      sorted(v.definitions, key=repr))
        elif isinstance(v, dict):
            out[n] = ('dict', {k: copy.deepcopy(x) for k, x in v.items()})
        else:
            out[n] = ('val', v)
    return out


def replay(key, inputs):
    sys.path.insert(0, os.environ.get('VERIF_REPO', '/repo'))
    from . import loader, contracts
    src = loader.source()
    reg = contracts.Registry(src)
    import tapescript.functions as F
    import secrets
    now = None
    for k, v in inputs.items():
        if k.startswith('now!') and v[0] == 'int':
            now = v[1]
    if now is not None:
        F.time = lambda: now
        for m in list(sys.modules.values()):
            if getattr(m, '__name__', '').startswith('contracts.') and hasattr(m, 'time'):
                m.time = lambda: now

    def tok(n=32):
        if n < 0:
            raise ValueError('negative argument not allowed')
        return bytes(n)
    F.token_bytes = tok
    for m in list(sys.modules.values()):
        if getattr(m, '__name__', '').startswith('contracts.') and hasattr(m, 'token_bytes'):
            m.token_bytes = tok
    try:
        args = build_args(key, inputs, src, reg)
    except Exception as ex:  # noqa: BLE001
        return {'confirmed': False, 'what': f'input not realisable: {type(ex).__name__}: {ex}'}
    c = reg.get(key)
    real = src.live_fn(key)
    a_real = copy.deepcopy(args)
    a_spec = copy.deepcopy(args)
    old = copy.deepcopy(args)
    try:
        r_real = ('return', real(**a_real))
    except BaseException as ex:  # noqa: BLE001
        r_real = ('raise', type(ex).__name__, str(ex)[:200])
    res = {'function': key, 'input': {n: repr(v)[:300] for n, v in snapshot_state(old).items()},
           'real_outcome': repr(r_real)[:300], 'confirmed': False, 'checks': []}
    spec = c.fn.get('spec')
    if spec is not None:
        from .vocab import AnyError, SpecUnavailable
        try:
            r_spec = ('return', spec(**a_spec))
        except SpecUnavailable:
            r_spec = None
        except BaseException as ex:  # noqa: BLE001
            r_spec = ('raise', type(ex).__name__, str(ex)[:200])
        if r_spec is not None:
            res['spec_outcome'] = repr(r_spec)[:300]
            if r_real[0] != r_spec[0]:
                res['confirmed'] = True
                res['checks'].append('outcome differs: real %s, contract %s' % (r_real[:2], r_spec[:2]))
            elif r_real[0] == 'raise':
                if r_spec[1] != 'AnyError' and r_real[1] != r_spec[1]:
                    res['confirmed'] = True
                    res['checks'].append(f'exception class differs: real {r_real[1]}, contract {r_spec[1]}')
            else:
                s_real, s_spec = snapshot_state(a_real), snapshot_state(a_spec)
                if s_real != s_spec:
                    res['confirmed'] = True
                    diff = [n for n in s_real if s_real[n] != s_spec[n]]
                    res['checks'].append('final state differs in ' + ', '.join(
                        f'{n}: real {repr(s_real[n])[:200]} / contract {repr(s_spec[n])[:200]}' for n in diff))
                if type(r_real[1]) in (bytes, int, bool, str, type(None), tuple) and r_real[1] != r_spec[1]:
                    res['confirmed'] = True
                    res['checks'].append(f'result differs: real {r_real[1]!r} / contract {r_spec[1]!r}')
    # ensures clauses (own and inherited), where natively evaluable
    class Old:
        pass
    o = Old()
    o.__dict__.update(old)
    par = c
    while par is not None:
        ens = par.fn.get('ensures')
        if ens is not None:
            import inspect
            names = list(inspect.signature(ens).parameters)
            kw = {}
            for n in names:
                if n == 'old':
                    kw[n] = o
                elif n == 'result':
                    kw[n] = r_real[1] if r_real[0] == 'return' else None
                elif n == 'raised':
                    kw[n] = None if r_real[0] == 'return' else __builtins__.get(r_real[1], Exception) \
                        if isinstance(__builtins__, dict) else getattr(__builtins__, r_real[1], Exception)
                elif n in a_real:
                    kw[n] = a_real[n]
                else:
                    kw[n] = None
            try:
                clauses = ens(**kw) or []
                for label, cond in clauses:
                    if callable(cond):
                        cond = cond()
                    if not cond:
                        res['confirmed'] = True
                        res['checks'].append(f'ensures clause {par.name}:{label.lstrip("!")} is false on the real final state')
            except NotImplementedError:
                pass
            except BaseException as ex:  # noqa: BLE001
                res['checks'].append(f'ensures of {par.name} not evaluable natively: {type(ex).__name__}: {ex}')
        par = reg.get(par.extends) if par.extends else None
    return res

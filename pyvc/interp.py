"""pyvc.interp -- symbolic executor over the Python AST (one path per run, DFS by decision prefix).

See DESIGN.md section 2.3 / appendix C.  The executor never guesses: a construct or call it does
not model raises Unsupported, which the driver reports as `undecided`, never as a verdict.
"""
from __future__ import annotations
import ast
import os
import builtins
import dataclasses
import types
import z3
from . import sym
from .sym import (SB, SStr, SF, SV, SEnum, ZList, HDict, HObj, HByteArray, SymSet, Opaque, VAL, I, BYTES,
                  is_z3, is_sym_int, is_sym_bool, zint, zbool, fresh, mkbytes, sym_bytes, is_bytes, bexpr, blen)


class Unsupported(Exception):
    pass


class SpecAbort(Exception):
    pass


class SpecVacuous(SpecAbort):
    """the guard under which something is evaluated speculatively is infeasible on this path"""


class EngineFault(Exception):
    """the executor detected an inconsistency in itself (exit 3, never a verdict)"""


class PathAbort(Exception):
    """The forced decision prefix is infeasible, or the path was cut (loop back edge)."""

    def __init__(self, why='infeasible'):
        self.why = why


class PyRaise(Exception):
    """An exception raised by the interpreted program."""

    def __init__(self, cls, value=None, msg=None):
        self.cls = cls          # a real python exception class
        self.value = value      # python-side payload (PyExcVal) if any
        self.msg = msg

    def __repr__(self):
        return f'PyRaise({self.cls.__name__})'


class PyExcVal:
    """Instance of an exception inside the interpreted program."""

    def __init__(self, cls, args):
        self.cls = cls
        self.args = args


class _Return(Exception):
    def __init__(self, v):
        self.v = v


class _Break(Exception):
    pass


class _Continue(Exception):
    pass


class Env:
    __slots__ = ('vars', 'parent')

    def __init__(self, vars=None, parent=None):
        self.vars = vars if vars is not None else {}
        self.parent = parent

    def lookup(self, name):
        e = self
        while e is not None:
            if name in e.vars:
                return True, e.vars[name]
            e = e.parent
        return False, None


class AstFunc:
    """A function given by its AST (repository function, nested def, lambda, sidecar spec)."""

    def __init__(self, node, globs, closure=None, key=None, name=None, defaults=None, kwdefaults=None):
        self.node = node
        self.globs = globs          # dict of module globals (live)
        self.closure = closure
        self.key = key              # 'module.qualname' for repository functions
        self.name = name or getattr(node, 'name', '<lambda>')
        self.defaults = defaults    # evaluated default values (list) or None -> evaluate lazily natively
        self.kwdefaults = kwdefaults

    def __repr__(self):
        return f'AstFunc({self.key or self.name})'


class BoundMethod:
    def __init__(self, obj, fn):
        self.obj = obj
        self.fn = fn


class Obligation:
    __slots__ = ('name', 'kind', 'pc', 'goal', 'path', 'info', 'axioms')

    def __init__(self, name, kind, pc, goal, path, info=None, axioms=()):
        self.name = name
        self.kind = kind
        self.pc = pc
        self.goal = goal
        self.path = path
        self.info = info or {}
        self.axioms = axioms


class Ctx:
    """State of one path."""

    def __init__(self, prefix=(), axioms=(), timeout_ms=3000, fname=''):
        self.prefix = list(prefix)
        self.taken = []            # (choice index, number of options, explored-alternatives mask)
        self.pc = []
        self.obls = []
        self.axioms = list(axioms)
        from .abstract import SeqAbs
        self.abs = SeqAbs()
        self.solver = z3.Solver()
        self.solver.set('timeout', timeout_ms)
        for a in self.axioms:
            self.solver.add(a)
        self.ghost = {}
        self.fname = fname
        self.counters = {}
        self.nchecks = 0
        self.pc_ids = set()
        self.nmodel_hits = 0
        self.model = None
        self.notes = []
        self.dead_alts = {}      # decision index -> alternatives found infeasible when the decision was taken

    # -- path condition -------------------------------------------------------------------
    def assume(self, c, solver=True):
        c = zbool(c)
        if c is True or z3.is_true(c):
            return
        self.pc.append(c)
        self.pc_ids.add(c.get_id())
        if not solver:
            return           # kept for the obligations only (see define(lenfact=True))
        if self.model is not None and not self._model_says(c):
            self.model = None
        if has_quantifier(c):
            # quantified facts are kept for the obligations but not given to the path solver:
            # feasibility checks stay fast and merely over-approximate (an infeasible path that is
            # explored costs time, never soundness: its obligations carry the full path condition)
            self.nquant = getattr(self, 'nquant', 0) + 1
        else:
            self.solver.add(self.weak(c))

    def define(self, c, lenfact=False):
        """a universally valid fact about a term just created (an instance of a prelude law): survives
        the end of a speculative evaluation, unlike path-specific assumptions.  lenfact: the output
        length of an uninterpreted function -- not given to the path solver (the executor tracks such
        lengths itself, and long fixed-length strings make satisfiable checks slow)"""
        if self.ghost.get('speculating', 0):
            self.ghost.setdefault('spec_defs', []).append((c, lenfact))
        # (with the sequence abstraction of the path solver a length fact is a cheap linear fact about
        # LEN!abs(term); PYVC_LENFACT=0 restores the old behaviour of withholding it)
        self.assume(c, solver=(not lenfact) or os.environ.get('PYVC_LENFACT', '1') == '1')

    def weak(self, c):
        """the formula the path solver sees: byte-string content abstracted (abstract.py)"""
        a = self.abs.form(c)
        for f in self.abs.facts():
            self.solver.add(f)
        return a

    def _model_says(self, c):
        """True only if the cached model of the (abstract) path condition definitely satisfies c"""
        try:
            if has_quantifier(c):
                return False
            v = self.model.eval(self.weak(c), model_completion=True)
            return z3.is_true(v)
        except z3.Z3Exception:
            return False

    def feasible(self, c=None):
        if self.model is not None and (c is None or self._model_says(c)):
            self.nmodel_hits += 1
            return True
        self.nchecks += 1
        if c is None:
            r = self.solver.check()
        else:
            r = self.solver.check(self.weak(c))
        if r == z3.sat and not self.ghost.get('speculating', 0):
            try:
                self.model = self.solver.model()
            except z3.Z3Exception:
                self.model = None
        return r != z3.unsat

    def valid(self, c):
        """pc |= c ?  (unknown counts as not valid)"""
        self.nchecks += 1
        if has_quantifier(c):
            return False
        return self.solver.check(self.weak(z3.Not(c))) == z3.unsat

    def choose(self, options, label=''):
        """n-way decision.  options: list of z3 Bool / python bool conditions (not necessarily
        exclusive; the chosen one is assumed).  Returns the chosen index."""
        i = len(self.taken)
        n = len(options)
        opts = [zbool(o) for o in options]

        def ok(k):
            o = opts[k]
            if o is False or (is_z3(o) and z3.is_false(o)):
                return False
            if o is True or (is_z3(o) and z3.is_true(o)):
                return self.feasible() if n > 1 else True
            if has_quantifier(o):
                return True         # not decided here: both sides are explored
            return self.feasible(o)

        if self.ghost.get('speculating', 0):
            # inside a speculative (merge) evaluation only decisions with a single feasible option
            # are allowed; they are not recorded
            feas = [j for j in range(n) if ok(j)]
            if len(feas) == 0:
                raise SpecVacuous()      # the guard of this speculative evaluation contradicts the path condition
            if len(feas) != 1:
                raise SpecAbort()
            self.assume(opts[feas[0]])
            return feas[0]
        if i < len(self.prefix):
            k = self.prefix[i]
            if isinstance(k, tuple):
                k, plabel, pn = k
                if plabel != label or pn != n:
                    raise EngineFault(f'decision misalignment at {i}: replay sees {label}/{n}, '
                                      f'the run that produced the prefix saw {plabel}/{pn}')
            # decisions before the last forced one were found feasible by the run that produced this
            # prefix; only the last (the alternative being tried) needs a check
            if k >= n or (i == len(self.prefix) - 1 and not ok(k)):
                raise PathAbort('infeasible')
            self.taken.append((k, n, label))
        else:
            k = None
            for j in range(n):
                if ok(j):
                    k = j
                    break
            if k is None:
                raise PathAbort('infeasible')
            # alternatives that are infeasible here are pruned now (one solver call) instead of by a
            # re-execution up to this point; `unknown` keeps the alternative
            dead = set()
            for j in range(k + 1, n):
                o = opts[j]
                if o is False or (is_z3(o) and z3.is_false(o)):
                    dead.add(j)
                elif is_z3(o) and not z3.is_true(o) and not has_quantifier(o):
                    self.nchecks += 1
                    if self.solver.check(self.weak(o)) == z3.unsat:
                        dead.add(j)
            self.dead_alts.pop(i, None)
            if dead:
                self.dead_alts[i] = dead
            self.taken.append((k, n, label))
        self.assume(opts[k])
        return k

    def branch(self, cond, label=''):
        if isinstance(cond, bool):
            return cond
        cb = sym.concrete_bool(cond)
        if cb is not None:
            return cb
        return self.choose([cond, z3.Not(cond)], label) == 0

    def oblige(self, name, goal, kind='assert', info=None):
        goal = zbool(goal)
        if goal is True:
            goal = z3.BoolVal(True)
        if goal is False:
            goal = z3.BoolVal(False)
        if info is None and goal.get_id() in self.pc_ids:
            info = {'trivial': 'assumed'}      # the goal is literally one of the assumptions
        self.obls.append(Obligation(name, kind, list(self.pc), goal, tuple(t[0] for t in self.taken), info,
                                    tuple(self.axioms)))

    def count(self, key):
        self.counters[key] = self.counters.get(key, 0) + 1
        return self.counters[key] - 1


_HQ = {}      # ast id -> (pinned ast, result); pinning the ast keeps its id from being recycled


def has_quantifier(e, memo=None, depth=0):
    if not is_z3(e):
        return False
    i = e.get_id()
    r = _HQ.get(i)
    if r is not None:
        return r[1]
    if z3.is_quantifier(e):
        r = not e.is_lambda() or has_quantifier(e.body(), None, depth + 1)
    elif depth > 300:
        return False          # not cached: the answer depends on the depth the term was reached at
    else:
        r = any(has_quantifier(c, None, depth + 1) for c in e.children())
    if len(_HQ) > 400000:
        _HQ.clear()
    _HQ[i] = (e, r)
    return r


def type_of(v):
    """python type of a (possibly symbolic) value; SV must be resolved before."""
    if isinstance(v, bool) or is_sym_bool(v):
        return bool
    if is_sym_int(v):
        return int
    if isinstance(v, SB):
        return bytes
    if isinstance(v, SStr):
        return str
    if isinstance(v, SF):
        return float
    if isinstance(v, ZList):
        return {'list': list, 'tuple': tuple, 'deque': __import__('collections').deque}[v.kind]
    if isinstance(v, HDict):
        return dict
    if isinstance(v, HObj):
        return v.cls
    if isinstance(v, HByteArray):
        return bytearray
    if isinstance(v, SymSet):
        return set
    if isinstance(v, PyExcVal):
        return v.cls
    if isinstance(v, (AstFunc, BoundMethod)):
        return types.FunctionType
    if isinstance(v, Opaque):
        return Opaque
    if isinstance(v, SV):
        raise Unsupported('type_of unresolved SV')
    pt = getattr(v, '_pytype', None)
    if pt is not None:
        return pt
    return type(v)


def is_concrete(v, depth=0):
    """True if v is an ordinary python value with no symbolic parts (shallow containers checked)."""
    if isinstance(v, (bool, int, float, str, bytes, type(None), type, types.ModuleType, types.BuiltinFunctionType)):
        return True
    if is_z3(v) or isinstance(v, (SB, SStr, SF, SV, SEnum, ZList, HDict, HObj, HByteArray, SymSet, Opaque,
                                 AstFunc, BoundMethod, PyExcVal)) or getattr(v, '_symbolic', False):
        return False
    if isinstance(v, (list, tuple, set, frozenset)):
        return depth < 4 and all(is_concrete(x, depth + 1) for x in v)
    if isinstance(v, dict):
        return depth < 4 and all(is_concrete(k, depth + 1) and is_concrete(x, depth + 1) for k, x in v.items())
    return True


# ================================================================================================
class Interp:
    def __init__(self, ctx: Ctx, src, registry, mode='body'):
        self.ctx = ctx
        self.src = src                # loader.Source
        self.reg = registry           # contracts.Registry
        self.mode = mode
        self.depth = 0
        self.loop_ordinals = {}       # function key -> next loop ordinal (per activation)
        self.call_ordinals = {}
        self.stack = []               # activation records (function keys)
        from . import models
        self.models = models
        self.verifying = None         # key of the function whose body is being verified
        self.spec_depth = 0           # > 0 while sidecar (spec / predicate) code runs
        self.frames = []              # per activation: dict(loop=.., call=..)

    # ------------------------------------------------------------------------------ helpers
    def raise_(self, cls, *args):
        raise PyRaise(cls, PyExcVal(cls, args))

    def truth(self, v):
        """python truthiness as python bool or z3 Bool."""
        if isinstance(v, SV):
            hit = self.ctx.ghost.get('resolved', {}).get((v.e.get_id(), 0))
            if hit is None and v.hint is None:
                return self.truthy_val(v.e)
        v = self.resolve(v)
        if isinstance(v, (bool, int, float, str, bytes, type(None), tuple, list, dict, set)):
            return bool(v)
        if is_sym_bool(v):
            return v
        if is_sym_int(v):
            f = self.models.bv_form(v)
            if f is not None:
                return f != 0
            return v != 0
        if isinstance(v, SB):
            n = v.length()
            return n != 0
        if isinstance(v, SStr):
            return z3.Length(v.e) != 0
        if isinstance(v, ZList):
            return zint(v.ln) != 0
        if isinstance(v, SF):
            return z3.Not(sym.f_iszero(v.e))
        if isinstance(v, (HObj,)):
            if '__len__' in v.cls.__dict__:
                return zint(self.call_method(v, '__len__', [], {})) != 0
            return True
        if isinstance(v, (Opaque, AstFunc, BoundMethod, PyExcVal, HByteArray)):
            if isinstance(v, HByteArray):
                return self.truth(v.v)
            return True
        if isinstance(v, SymSet):
            return len(v.items) != 0
        if isinstance(v, HDict):
            # non-empty iff some key of one of the three key spaces is present (skolem witnesses on the
            # non-empty side, quantified absence on the empty side): exact
            b = fresh('nonempty', z3.BoolSort())
            wit, absent = [], []
            for sp, srt in HDict.SPACES.items():
                kq = fresh(f'k{sp}', srt)
                absent.append(z3.ForAll([kq], z3.Select(v.maps[sp], kq) == VAL.absent))
                kw = fresh(f'w{sp}', srt)
                wit.append(z3.Select(v.maps[sp], kw) != VAL.absent)
            if self.ctx.branch(b, 'dict nonempty'):
                self.ctx.assume(z3.Or(*wit))
                return True
            self.ctx.assume(z3.And(*absent))
            return False
        return bool(v)

    def truthy_val(self, e):
        """truthiness of a dynamically typed value as one formula (no fork on its type); objects and
        opaque values count as true (no __bool__ / __len__ protocol is modelled for them)"""
        V = VAL
        return z3.If(V.is_vbool(e), V.b(e),
               z3.If(V.is_vint(e), V.i(e) != 0,
               z3.If(V.is_vbytes(e), z3.Length(V.y(e)) != 0,
               z3.If(V.is_vstr(e), z3.Length(V.s(e)) != 0,
               z3.If(V.is_vblist(e), V.ll(e) != 0,
               z3.If(V.is_vfloat(e), z3.Not(sym.f_iszero(V.f(e))),
               z3.If(z3.Or(V.is_vnone(e), V.is_absent(e)), z3.BoolVal(False), z3.BoolVal(True))))))))

    def test(self, v, label=''):
        return self.ctx.branch(self.truth(v), label)

    def resolve(self, v):
        """SV -> typed value, forking over the feasible constructors."""
        if not isinstance(v, SV):
            return v
        e = v.e
        V = VAL
        cache = self.ctx.ghost.setdefault('resolved', {})
        org = getattr(v, 'origin', None)
        ck = (e.get_id(), id(org) if (org is not None and v.hint is not None) else 0)
        hit = cache.get(ck)
        if hit is not None:
            return hit[1]          # established earlier on this path (entries are never stored while speculating)
        r = self._resolve(e, v.hint, org)
        if not self.ctx.ghost.get('speculating', 0):
            cache[ck] = (e, r, org)
        return r

    def _resolve(self, e, hint=None, origin=None):
        V = VAL
        if hint in ('list', 'Tape') and origin is not None:
            # typed container (descriptor dict[list] / the definitions table): its values are object
            # references by the typing precondition of the container -- no fork over value kinds
            self.ctx.assume(V.is_vref(e))
            return self.deref(V.r(e), hint, origin)
        # (a value read from a dict or passed as an argument is never `absent`)
        opts = [V.is_vbytes(e), V.is_vint(e), V.is_vblist(e), V.is_vbool(e), V.is_vstr(e), V.is_vfloat(e),
                V.is_vnone(e), V.is_vref(e), V.is_vopq(e)]
        k = None
        se = z3.simplify(e)
        if z3.is_app(se) and se.decl().name() in _VAL_CTORS:
            # the value is syntactically a constructor application: its kind is known, no decision
            k = _VAL_CTORS[se.decl().name()]
            e = se
        if k is None:
            k = self.ctx.choose(opts, 'type')
        if k == 2 and z3.is_app(e) and e.decl().name() == 'vblist' and (z3.is_true(e.arg(2)) or z3.is_false(e.arg(2))):
            kind = 'tuple' if z3.is_true(e.arg(2)) else 'list'
            self.ctx.assume(V.ll(e) >= 0)
            return ZList('bytes', V.la(e), V.ll(e), kind=kind)
        if k == 0:
            return sym_bytes(V.y(e))
        if k == 1:
            return V.i(e)
        if k == 2:
            kind = 'tuple' if self.ctx.branch(V.lt(e), 'tuple?') else 'list'
            self.ctx.assume(V.ll(e) >= 0)
            return ZList('bytes', V.la(e), V.ll(e), kind=kind)
        if k == 3:
            return V.b(e)
        if k == 4:
            return SStr(V.s(e))
        if k == 5:
            return SF(V.f(e))
        if k == 6:
            return None
        if k == 7:
            return self.deref(V.r(e), hint, origin)
        if k == 8:
            return Opaque('opq', V.o(e))
        raise Unsupported('use of absent value')

    def deref(self, rid, hint=None, origin=None):
        """reference id -> heap object (known objects first, else a registered unknown)."""
        heap = self.ctx.ghost.setdefault('heap', {})
        c = sym.concrete_int(rid)
        if c is not None and c in heap:
            return heap[c]
        mk = self.ctx.ghost.get('unknown_factory')
        if mk is None:
            return Opaque('ref', rid)       # an object the engine knows nothing about
        return mk(self, rid, hint, origin)

    def to_val(self, v):
        """python-side value -> z3 Val (for storing into HDict / ZList('val'))."""
        V = VAL
        if isinstance(v, SV):
            return v.e
        if v is None:
            return V.vnone
        if isinstance(v, bool) or is_sym_bool(v):
            return V.vbool(zbool(v))
        if isinstance(v, int) or is_sym_int(v):
            return V.vint(zint(v))
        if is_bytes(v):
            return V.vbytes(bexpr(v))
        if isinstance(v, (str, SStr)):
            return V.vstr(sym.sexpr(v))
        if isinstance(v, (float, SF)):
            return V.vfloat(sym.fexpr(v))
        if isinstance(v, ZList) and v.elem == 'bytes':
            return V.vblist(v.arr, zint(v.ln), z3.BoolVal(v.kind == 'tuple'))
        if isinstance(v, (list, tuple)) and all(is_bytes(x) for x in v):
            arr = z3.K(I, z3.Empty(BYTES))
            for i, x in enumerate(v):
                arr = z3.Store(arr, i, bexpr(x))
            return V.vblist(arr, z3.IntVal(len(v)), z3.BoolVal(isinstance(v, tuple)))
        if isinstance(v, (HObj, HDict, ZList)):
            heap = self.ctx.ghost.setdefault('heap', {})
            oid = v.oid
            if isinstance(oid, int):
                heap[oid] = v
            return V.vref(zint(oid))
        if isinstance(v, Opaque):
            return V.vopq(zint(v.oid))
        if isinstance(v, SEnum):
            items = list(v.table.items())
            r = self.to_val(items[-1][1])
            for k, x in reversed(items[:-1]):
                r = z3.If(zint(v.idx) == k, self.to_val(x), r)
            return r
        raise Unsupported(f'cannot store {type(v).__name__} into a symbolic container')

    # --------------------------------------------------------------------------- functions
    def wrap_function(self, fn):
        """live python function from the repository -> AstFunc"""
        key = self.src.key_of(fn)
        if key is None:
            return None
        f = getattr(fn, '__func__', fn)
        return AstFunc(self.src.node(key), f.__globals__, None, key=key, name=f.__name__)

    def bind_args(self, f: AstFunc, args, kwargs):
        a = f.node.args
        params = [x.arg for x in a.posonlyargs + a.args]
        env = {}
        args = list(args)
        if len(args) > len(params) and not a.vararg:
            self.raise_(TypeError, 'too many positional arguments')
        for p, v in zip(params, args):
            env[p] = v
        if a.vararg:
            env[a.vararg.arg] = tuple(args[len(params):])
        kwargs = dict(kwargs)
        for p in params[len(args):]:
            if p in kwargs:
                env[p] = kwargs.pop(p)
        # defaults
        ndef = len(a.defaults)
        for idx, p in enumerate(params):
            if p not in env:
                j = idx - (len(params) - ndef)
                if j < 0:
                    self.raise_(TypeError, f'missing argument {p}')
                env[p] = self.default_value(f, a.defaults[j], ('pos', j))
        for kwa, d in zip(a.kwonlyargs, a.kw_defaults):
            if kwa.arg in kwargs:
                env[kwa.arg] = kwargs.pop(kwa.arg)
            elif d is not None:
                env[kwa.arg] = self.default_value(f, d, ('kw', kwa.arg))
            else:
                self.raise_(TypeError, f'missing keyword argument {kwa.arg}')
        if kwargs:
            if a.kwarg:
                env[a.kwarg.arg] = kwargs
            else:
                self.raise_(TypeError, f'unexpected keyword arguments {list(kwargs)}')
        return env

    def default_value(self, f, node, which):
        """Default-argument objects are global heap objects (created once at def time).  Immutable
        literals are evaluated directly; a mutable default ({} / []) is represented by one shared
        object per function so that writes into it are visible (C19)."""
        if isinstance(node, ast.Constant):
            return node.value
        if isinstance(node, (ast.Dict, ast.List)) and not (getattr(node, 'keys', None) or getattr(node, 'elts', None)):
            gd = self.ctx.ghost.setdefault('default_objs', {})
            k = (f.key or f.name, which)
            if k not in gd:
                mk = self.ctx.ghost.get('default_factory')
                gd[k] = mk(self, f, which, node) if mk else ({} if isinstance(node, ast.Dict) else [])
            return gd[k]
        return self.ev(node, Env({}, Env(f.globs)))

    def call_ast(self, f: AstFunc, args, kwargs):
        env = Env(self.bind_args(f, args, kwargs), f.closure)
        self.depth += 1
        if self.depth > 60:
            raise Unsupported('interpreter recursion depth')
        self.frames.append({'key': f.key or f.name, 'loop': 0, 'call': {}, 'globs': f.globs, 'env': env})
        side = str(f.globs.get('__name__', '')).startswith('contracts.')
        if side:
            self.spec_depth += 1
        try:
            if isinstance(f.node, ast.Lambda):
                return self.ev(f.node.body, env)
            try:
                self.run_block(f.node.body, env)
            except _Return as r:
                return r.v
            return None
        finally:
            self.frames.pop()
            self.depth -= 1
            if side:
                self.spec_depth -= 1

    # ---------------------------------------------------------------------------- statements
    def run_block(self, body, env):
        for st in body:
            m = getattr(self, 'st_' + type(st).__name__, None)
            if m is None:
                raise Unsupported(f'statement {type(st).__name__}')
            m(st, env)

    def st_Expr(self, st, env):
        if isinstance(st.value, ast.Constant):
            return
        self.ev(st.value, env)

    def st_Pass(self, st, env):
        pass

    def st_Import(self, st, env):
        raise Unsupported('import inside function')

    st_ImportFrom = st_Import

    def st_Assign(self, st, env):
        v = self.ev(st.value, env)
        for t in st.targets:
            self.assign(t, v, env)

    def st_AnnAssign(self, st, env):
        if st.value is not None:
            self.assign(st.target, self.ev(st.value, env), env)

    def st_AugAssign(self, st, env):
        t = st.target
        cur = self.ev(self._as_load(t), env)
        v = self.ev(st.value, env)
        new = self.binop(type(st.op).__name__, cur, v, inplace=True)
        self.assign(t, new, env)

    def _as_load(self, t):
        if isinstance(t, ast.Name):
            return ast.Name(id=t.id, ctx=ast.Load())
        if isinstance(t, ast.Attribute):
            return ast.Attribute(value=t.value, attr=t.attr, ctx=ast.Load())
        if isinstance(t, ast.Subscript):
            return ast.Subscript(value=t.value, slice=t.slice, ctx=ast.Load())
        raise Unsupported('augmented assignment target')

    def assign(self, t, v, env):
        if isinstance(t, ast.Name):
            env.vars[t.id] = v
        elif isinstance(t, (ast.Tuple, ast.List)):
            vals = self.iter_concrete(v)
            star = [i for i, e in enumerate(t.elts) if isinstance(e, ast.Starred)]
            if star:
                raise Unsupported('starred assignment')
            if len(vals) != len(t.elts):
                self.raise_(ValueError, 'unpack length mismatch')
            for e, x in zip(t.elts, vals):
                self.assign(e, x, env)
        elif isinstance(t, ast.Attribute):
            o = self.ev(t.value, env)
            self.setattr_(o, t.attr, v)
        elif isinstance(t, ast.Subscript):
            o = self.ev(t.value, env)
            k = self.ev_index(t.slice, env)
            self.setitem(o, k, v)
        else:
            raise Unsupported(f'assignment target {type(t).__name__}')

    def st_Delete(self, st, env):
        for t in st.targets:
            if isinstance(t, ast.Subscript):
                o = self.ev(t.value, env)
                k = self.ev_index(t.slice, env)
                self.delitem(o, k)
            elif isinstance(t, ast.Name):
                env.vars.pop(t.id, None)
            else:
                raise Unsupported('del target')

    def st_Return(self, st, env):
        raise _Return(self.ev(st.value, env) if st.value is not None else None)

    def st_Raise(self, st, env):
        if st.exc is None:
            cur = self.ctx.ghost.get('handling')
            if cur is None:
                raise Unsupported('bare raise outside handler')
            raise cur
        e = self.ev(st.exc, env)
        if isinstance(e, type) and issubclass(e, BaseException):
            raise PyRaise(e, PyExcVal(e, ()))
        if isinstance(e, PyExcVal):
            raise PyRaise(e.cls, e)
        if isinstance(e, BaseException):
            raise PyRaise(type(e), PyExcVal(type(e), e.args))
        raise Unsupported('raise of non-exception')

    def st_Assert(self, st, env):
        c = self.ev(st.test, env)
        if not self.test(c, 'assert'):
            args = (self.ev(st.msg, env),) if st.msg is not None else ()
            raise PyRaise(AssertionError, PyExcVal(AssertionError, args))

    def st_If(self, st, env):
        c = self.ev(st.test, env)
        t = self.truth(c)
        if not isinstance(t, bool):
            cb = sym.concrete_bool(t)
            if cb is not None:
                t = cb
        if not isinstance(t, bool) and self.try_merge_if(st, t, env):
            return
        if not isinstance(t, bool) and self.try_guarded_assert(st, t, env):
            return
        if self.ctx.branch(t, 'if'):
            self.run_block(st.body, env)
        else:
            self.run_block(st.orelse, env)

    # -- `if g: sert(c, msg)` is one conditional raise (g and not c), not a three-way fork ------
    def try_guarded_assert(self, st, guard, env):
        if st.orelse or len(st.body) != 1 or not isinstance(st.body[0], ast.Expr):
            return False
        call = st.body[0].value
        if not (isinstance(call, ast.Call) and isinstance(call.func, ast.Name) and call.args and not call.keywords):
            return False
        try:
            fn = self.ev(call.func, env)
        except Unsupported:
            return False
        key = self.src.key_of(fn) if isinstance(fn, types.FunctionType) else None
        c = self.reg.get(key) if (key and self.reg) else None
        exc = c.cls.__dict__.get('assertlike') if c is not None else None
        if exc is None:
            return False
        box = {}

        def f(scratch):
            box['v'] = self.truth(self.ev(call.args[0], scratch))
            return scratch.vars
        if self.speculate(f, env, guard) is None:
            return False
        d = box['v']
        fail = guard if d is False else (False if d is True else z3.And(guard, z3.Not(d)))
        if self.ctx.branch(fail, 'guarded-assert'):
            raise PyRaise(exc, PyExcVal(exc, ()))
        return True

    # -- if-conversion: both arms are pure assignments to local names --------------------------
    def _simple_arm(self, body):
        for s in body:
            if isinstance(s, ast.Pass):
                continue
            if isinstance(s, ast.Assign) and len(s.targets) == 1 and isinstance(s.targets[0], ast.Name):
                continue
            if isinstance(s, ast.AugAssign) and isinstance(s.target, ast.Name):
                continue
            return False
        return True

    def try_merge_if(self, st, cond, env):
        if not (self._simple_arm(st.body) and self._simple_arm(st.orelse)):
            return False
        res = []
        for arm, c in ((st.body, cond), (st.orelse, z3.Not(cond))):
            out = self.speculate(lambda e, arm=arm: (self.run_block(arm, e), e.vars)[1], env, c)
            if out is None:
                return False
            res.append(out)
        names = set(res[0]) | set(res[1])
        merged = {}
        for n in names:
            a = res[0].get(n, env.vars.get(n, _MISSING))
            b = res[1].get(n, env.vars.get(n, _MISSING))
            if a is _MISSING or b is _MISSING:
                return False
            m = self.ite(cond, a, b)
            if m is _MISSING:
                return False
            merged[n] = m
        env.vars.update(merged)
        return True

    def speculate(self, fn, env, cond):
        """Run fn on a scratch copy of the local variables under the extra assumption `cond`, not
        allowing any fork, raise, obligation or heap write.  Returns fn's result (dict of changed
        locals) or None if speculation is not possible."""
        ctx = self.ctx
        # whether a speculation succeeds is itself recorded in the decision log (it may depend on a
        # solver time-out), so that a replay follows exactly the same control flow
        top = not ctx.ghost.get('speculating', 0)
        forced = None
        if top:
            i = len(ctx.taken)
            if i < len(ctx.prefix):
                ent = ctx.prefix[i]
                if not (isinstance(ent, tuple) and ent[1] == 'spec'):
                    raise EngineFault(f'decision misalignment at {i}: replay reaches a speculation, '
                                      f'the run that produced the prefix saw {ent!r}')
                forced = ent[0]
                if forced == 0:
                    ctx.taken.append((0, 1, 'spec'))
                    return None
        scratch = Env(dict(env.vars), env.parent)
        ctx.solver.push()
        saved = (len(ctx.pc), len(ctx.taken), len(ctx.obls), list(ctx.prefix), dict(ctx.counters))
        outer_defs = ctx.ghost.get('spec_defs')
        ctx.ghost['spec_defs'] = []
        ctx.solver.add(ctx.weak(cond))
        ctx.pc.append(cond)
        saved_model = ctx.model
        if ctx.model is not None and not ctx._model_says(cond):
            ctx.model = None         # the cached model does not satisfy the guard
        old_guard = ctx.ghost.get('speculating', 0)
        ctx.ghost['speculating'] = old_guard + 1
        ok = True
        out = None
        vac_ = False
        try:
            ctx.prefix = ctx.prefix[:len(ctx.taken)]   # no forced decisions inside
            before = dict(scratch.vars)
            vars_after = fn(scratch)
            if len(ctx.taken) != saved[1] or len(ctx.obls) != saved[2]:
                ok = False
            else:
                out = {k: v for k, v in vars_after.items() if k not in before or before[k] is not v}
        except (PyRaise, PathAbort, _Return, _Break, _Continue, SpecAbort) as ex_:
            ok = False
            vac_ = isinstance(ex_, SpecVacuous)
            if os.environ.get('PYVC_DEBUG') == '2':
                import traceback
                print('speculation aborted by', repr(ex_))
                traceback.print_exc(limit=-4)
        finally:
            ctx.ghost['speculating'] = old_guard
            ctx.model = saved_model
            ctx.solver.pop()
            for c_ in ctx.pc[saved[0]:]:
                ctx.pc_ids.discard(c_.get_id())
            del ctx.pc[saved[0]:]
            del ctx.taken[saved[1]:]
            del ctx.obls[saved[2]:]
            ctx.prefix = saved[3]
            ctx.counters = saved[4]
            defs = ctx.ghost.get('spec_defs', [])
            ctx.ghost['spec_defs'] = outer_defs
            for c, lf in defs:
                ctx.define(c, lf)    # re-assert at the enclosing level (or pass on to the outer speculation)
        if top:
            if forced == 1 and not ok:
                raise EngineFault('a speculation that succeeded in the run that produced the prefix fails on replay')
            ctx.taken.append((1 if ok else 0, 1, 'spec'))
        self.last_spec_vacuous = vac_
        return out if ok else None

    def heap_write_guard(self):
        if self.ctx.ghost.get('speculating', 0):
            raise SpecAbort()

    def ite(self, c, a, b):
        if a is b:
            return a
        ta, tb = self._kind(a), self._kind(b)
        if ta != tb or ta is None:
            return _MISSING
        if ta == 'int':
            return z3.If(c, zint(a), zint(b))
        if ta == 'bool':
            return z3.If(c, zbool(a), zbool(b))
        if ta == 'bytes':
            return sym_bytes(z3.If(c, bexpr(a), bexpr(b)))
        if ta == 'str':
            return SStr(z3.If(c, sym.sexpr(a), sym.sexpr(b)))
        if ta == 'float':
            return SF(z3.If(c, sym.fexpr(a), sym.fexpr(b)))
        if ta == 'none':
            return None
        return _MISSING

    @staticmethod
    def _kind(v):
        if isinstance(v, bool) or is_sym_bool(v):
            return 'bool'
        if isinstance(v, int) or is_sym_int(v):
            return 'int'
        if is_bytes(v):
            return 'bytes'
        if isinstance(v, (str, SStr)):
            return 'str'
        if isinstance(v, (float, SF)):
            return 'float'
        if v is None:
            return 'none'
        return None

    # -- try / except ---------------------------------------------------------------------------
    def st_Try(self, st, env):
        if st.finalbody:
            inner = ast.Try(body=st.body, handlers=st.handlers, orelse=st.orelse, finalbody=[])
            ast.copy_location(inner, st)
            try:
                if st.handlers or st.orelse:
                    self.st_Try(inner, env)
                else:
                    self.run_block(st.body, env)
            except (PyRaise, _Return, _Break, _Continue):
                self.run_block(st.finalbody, env)     # (an exception raised by the finally block wins)
                raise
            self.run_block(st.finalbody, env)
            return
        try:
            self.run_block(st.body, env)
        except PyRaise as r:
            for h in st.handlers:
                if h.type is None:
                    match = True
                else:
                    t = self.ev(h.type, env)
                    ts = t if isinstance(t, tuple) else (t,)
                    match = any(isinstance(x, type) and issubclass(r.cls, x) for x in ts)
                if match:
                    if h.name:
                        env.vars[h.name] = r.value if r.value is not None else PyExcVal(r.cls, ())
                    prev = self.ctx.ghost.get('handling')
                    self.ctx.ghost['handling'] = r
                    try:
                        self.run_block(h.body, env)
                    finally:
                        self.ctx.ghost['handling'] = prev
                    return
            raise
        else:
            self.run_block(st.orelse, env)

    # -- loops ----------------------------------------------------------------------------------
    def _loop_ordinal(self):
        fr = self.frames[-1] if self.frames else {'key': '<top>', 'loop': 0}
        k = fr['loop']
        fr['loop'] = k + 1
        return fr.get('key'), k

    def st_While(self, st, env):
        key, k = self._loop_ordinal()
        if st.orelse:
            raise Unsupported('while/else')
        spec = self.reg.loop_spec(key, k) if self.reg else None
        # unroll while the condition is concretely decidable on this path; a symbolic condition needs
        # the invariant from the sidecar (Hoare rule from the state reached so far)
        n = 0
        while True:
            c = self.truth(self.ev(st.test, env))
            cb = c if isinstance(c, bool) else sym.concrete_bool(c)
            if cb is None and (spec is None or self.ctx.ghost.get('lemma_mode')):
                if self.ctx.valid(c):
                    cb = True
                elif self.ctx.valid(z3.Not(c)):
                    cb = False
            if cb is None:
                if spec is None:
                    raise Unsupported(f'loop {key}#{k}: symbolic trip count and no invariant in the sidecar')
                if n and not self.ctx.ghost.get('lemma_mode'):
                    raise Unsupported(f'loop {key}#{k}: condition became symbolic after {n} concrete iterations')
                return self.loop_with_invariant(key, k, spec, env, st.body,
                                                cond=lambda e: self.truth(self.ev(st.test, e)), step=None, node=st)
            if not cb:
                return
            n += 1
            if n > 4096:
                raise Unsupported(f'loop {key}#{k}: unrolling limit')
            try:
                self.run_block(st.body, env)
            except _Break:
                return
            except _Continue:
                continue

    def st_For(self, st, env):
        key, k = self._loop_ordinal()
        if st.orelse:
            raise Unsupported('for/else')
        it = self.ev(st.iter, env)
        it = self.resolve(it)
        spec = self.reg.loop_spec(key, k) if self.reg else None
        self.for_loop(key, k, spec, st.target, it, st.body, env, st)

    def for_loop(self, key, k, spec, target, it, body, env, node):
        rng = self.as_range(it)
        if rng is not None and all(isinstance(x, int) for x in rng):
            seq = list(range(*rng))
        elif isinstance(it, (list, tuple, dict, str, bytes, set, frozenset, range)) or \
                (isinstance(it, dict)):
            seq = None
            if isinstance(it, list):
                # CPython iterates a list by index against its *live* length
                i = 0
                while i < len(it):
                    self.assign(target, it[i], env)
                    i += 1
                    try:
                        self.run_block(body, env)
                    except _Break:
                        return
                    except _Continue:
                        continue
                return
            seq = list(it)
        elif isinstance(it, _ItemsView):
            seq = list(it.pairs)
        elif isinstance(it, SymSet):
            seq = list(it.items)
        else:
            seq = None
        if seq is not None and spec is not None and spec.get('abstract') and len(seq) > 1:
            # a loop over a concrete sequence treated by its invariant (one symbolic iteration instead
            # of len(seq) unrolled ones): the element is selected by a symbolic index
            idx = '__i%d' % k
            env.vars[idx] = 0
            n_ = len(seq)

            def cond(e):
                return zint(e.vars[idx]) < n_

            def step(e):
                self.assign(target, self.select_by_index(e.vars[idx], seq), e)
                e.vars[idx] = zint(e.vars[idx]) + 1
            return self.loop_with_invariant(key, k, spec, env, body, cond, step, node, index_var=idx,
                                            bounds=(0, n_))
        if seq is not None:
            for x in seq:
                self.assign(target, x, env)
                try:
                    self.run_block(body, env)
                except _Break:
                    return
                except _Continue:
                    continue
            return
        # symbolic iteration
        if spec is None:
            raise Unsupported(f'loop {key}#{k}: symbolic trip count and no invariant in the sidecar')
        if rng is not None:
            lo, hi, stp = rng
            if stp != 1:
                raise Unsupported('symbolic range with step')
            idx = '__i%d' % k
            env.vars[idx] = lo

            def cond(e):
                return zint(e.vars[idx]) < zint(hi)

            def step(e):
                self.assign(target, e.vars[idx], e)
                e.vars[idx] = zint(e.vars[idx]) + 1
            self.loop_with_invariant(key, k, spec, env, body, cond, step, node, index_var=idx,
                                     bounds=(lo, hi))
        elif isinstance(it, ZList):
            idx = '__i%d' % k
            env.vars[idx] = 0

            def cond(e):
                return zint(e.vars[idx]) < zint(it.ln)     # live length, as CPython does

            def step(e):
                self.assign(target, self.zl_get(it, e.vars[idx]), e)
                e.vars[idx] = zint(e.vars[idx]) + 1
            self.loop_with_invariant(key, k, spec, env, body, cond, step, node, index_var=idx,
                                     bounds=(0, None))
        else:
            raise Unsupported(f'loop {key}#{k}: iteration over {type(it).__name__}')

    def select_by_index(self, i, seq):
        """seq[i] for a symbolic index i into a concrete python sequence"""
        if all(isinstance(x, tuple) for x in seq) and len({len(x) for x in seq}) == 1:
            return tuple(self.select_by_index(i, [x[p] for x in seq]) for p in range(len(seq[0])))
        if all((isinstance(x, int) and not isinstance(x, bool)) or is_sym_int(x) for x in seq):
            r = zint(seq[-1])
            for j in range(len(seq) - 2, -1, -1):
                r = z3.If(zint(i) == j, zint(seq[j]), r)
            return r
        if all(isinstance(x, str) for x in seq):
            return self.models.senum_str(SEnum(zint(i), dict(enumerate(seq))))
        return SEnum(zint(i), dict(enumerate(seq)))

    def as_range(self, it):
        if isinstance(it, range):
            return (it.start, it.stop, it.step)
        if isinstance(it, _SymRange):
            return (it.lo, it.hi, it.step)
        return None

    def loop_with_invariant(self, key, k, spec, env, body, cond, step, node, index_var=None, bounds=None):
        """Hoare rule: assert inv on entry; havoc what the loop may modify; assume inv; then either
        (a) one more iteration -> body -> assert inv, variant decreased -> cut, or (b) exit."""
        ctx = self.ctx
        name = f'{key}/loop{k}'
        from .apply import Old
        from .heap import snapshot
        visible = {}
        e_ = env
        while e_ is not None:
            for kk, v in e_.vars.items():
                visible.setdefault(kk, v)
            e_ = e_.parent
        ctx.ghost['loop_old'] = Old(snapshot(visible))
        self.check_invariant(spec, env, f'{name}/inv-entry', index_var)
        self.havoc_loop(spec, env, node, index_var)
        if index_var is not None and bounds is not None:
            lo, hi = bounds
            ctx.assume(zint(env.vars[index_var]) >= zint(lo))
            if hi is not None:
                # the loop head is reached with lo <= i <= max(lo, hi)
                ctx.assume(z3.Or(zint(env.vars[index_var]) <= zint(hi), zint(env.vars[index_var]) == zint(lo)))
        self.assume_invariant(spec, env, index_var)
        c = cond(env)
        go = ctx.branch(c, f'loop{k}')
        if not go:
            return
        var0 = self.eval_variant(spec, env, index_var)
        if step is not None:
            step(env)
        try:
            self.run_block(body, env)
        except _Break:
            return          # leaves the loop: continue after it with the current state
        except _Continue:
            pass
        self.check_invariant(spec, env, f'{name}/inv-step', index_var)
        var1 = self.eval_variant(spec, env, index_var)
        if var0 is not None:
            ctx.oblige(f'{name}/variant', z3.And(zint(var0) >= 0, zint(var1) < zint(var0)), 'variant')
        raise PathAbort('cut')

    def _inv_env(self, env, index_var):
        return env

    def check_invariant(self, spec, env, name, index_var):
        for label, c in self.eval_clauses(spec.get('inv'), env, index_var):
            self.ctx.oblige(f'{name}/{label}', self.cval(c), 'inv')

    def assume_invariant(self, spec, env, index_var):
        for label, c in self.eval_clauses(spec.get('inv'), env, index_var):
            self.ctx.assume(self.cval(c))

    def eval_clauses(self, f, env, index_var):
        if f is None:
            return []
        res = self.call_spec_fn(f, env, index_var)
        return self.clauses(res)

    def clauses(self, res):
        if res is None:
            return []
        if isinstance(res, (list, tuple)):
            if not all(isinstance(x, tuple) and len(x) == 2 and isinstance(x[0], str) for x in res):
                raise Unsupported('a contract clause list must consist of (concrete label, condition) pairs')
            # a clause given as a lambda is evaluated when it is used (cval): after the clauses before it
            # have been assumed, so that it can rely on them (e.g. a length stated first)
            return [(l, LazyClause(c) if isinstance(c, AstFunc) else self.truth(c)) for l, c in res]
        return [('c', self.truth(res))]

    def cval(self, c):
        if isinstance(c, LazyClause):
            return self.truth(self.call(c.f, [], {}))
        return c

    def eval_variant(self, spec, env, index_var):
        f = spec.get('variant')
        if f is None:
            return None
        return self.call_spec_fn(f, env, index_var)

    def call_spec_fn(self, f, env, index_var=None):
        """Call a sidecar function whose parameters are named after local variables of the verified
        function (plus: i = loop index, old = entry snapshot, ghost)."""
        a = f.node.args
        args = []
        for p in [x.arg for x in a.args]:
            if p == 'i' and index_var is not None:
                args.append(env.vars[index_var])
                continue
            if p == 'old':
                args.append(self.ctx.ghost.get('old'))
                continue
            if p == 'loop_old':
                args.append(self.ctx.ghost.get('loop_old'))
                continue
            if p == 'res' and self.ctx.ghost.get('comp_var'):
                found, v = env.lookup(self.ctx.ghost['comp_var'])
                if found:
                    args.append(v)
                    continue
            found, v = env.lookup(p)
            if not found:
                raise Unsupported(f'sidecar function {f.name}: no local variable {p}')
            args.append(v)
        try:
            return self.call_ast(f, args, {})
        except PyRaise as r:
            # an error inside contract text is never program behaviour
            raise Unsupported(f'sidecar function {f.name} raised {r.cls.__name__}: {getattr(r.value, "args", "")}')

    def havoc_loop(self, spec, env, node, index_var):
        from .heap import havoc_value, havoc_inplace, snapshot
        assigned = set()
        for n in ast.walk(ast.Module(body=node.body, type_ignores=[])):
            if isinstance(n, ast.Name) and isinstance(n.ctx, ast.Store):
                assigned.add(n.id)
        if isinstance(node, ast.For):
            for n in ast.walk(node.target):
                if isinstance(n, ast.Name):
                    assigned.add(n.id)
        if index_var:
            assigned.add(index_var)
        assigned |= set(spec.get('locals', ()))      # locals mutated through closures of the function
        mods = list(spec.get('modifies', ()))
        objs = []
        if not mods:
            mods, objs = self.auto_modifies(node, env, assigned)
        lists = spec.get('lists', {})
        for name in sorted(assigned):
            if name in env.vars:
                env.vars[name] = havoc_value(self, env.vars[name], name, lists.get(name))
        for path in mods:
            self.havoc_path(env, path)
        for name, o in objs:
            if isinstance(o, (list, SymSet)):
                # a python list / set mutated in the loop: rebind the local variable to a symbolic one
                found_, cur_ = env.lookup(name)
                if found_ and cur_ is o:
                    e_ = env
                    while e_ is not None and name not in e_.vars:
                        e_ = e_.parent
                    e_.vars[name] = havoc_value(self, o, name, lists.get(name))
                else:
                    raise Unsupported(f'loop mutates python list reachable as {name}')
            else:
                havoc_inplace(self, o, name)

    _MUTATORS = {'append', 'pop', 'extend', 'remove', 'reverse', 'insert', 'clear', 'add', 'update', 'popleft',
                 'appendleft', 'setdefault', 'discard'}

    def auto_modifies(self, node, env, assigned):
        """which heap locations may the loop body write?  From the body's syntax and the `modifies`
        of the contracts of the functions it calls.  Returns (paths, [(name, object)])."""
        paths, objs = [], []

        def simple(e):
            if isinstance(e, ast.Name):
                return e.id
            if isinstance(e, ast.Attribute):
                b = simple(e.value)
                return None if b is None else f'{b}.{e.attr}'
            return None

        def val(path):
            parts = path.split('.')
            if parts[0] in assigned:
                return None
            found, o = env.lookup(parts[0])
            if not found:
                return None
            for p in parts[1:]:
                if isinstance(o, HObj) and p in o.f:
                    o = o.f[p]
                else:
                    return None
            return o

        def add_obj(path):
            o = val(path)
            if isinstance(o, (ZList, HDict, list, HByteArray, SymSet)):
                if not any(x is o for _, x in objs):
                    objs.append((path, o))

        def from_contract(key, argmap):
            c = self.reg.get(key) if self.reg else None
            if c is None:
                if self.reg and self.reg.policy(key) == 'inline':
                    return
                raise Unsupported(f'loop body calls {key} which has no contract')
            if c.modifies is None:
                raise Unsupported(f'loop body calls {key} whose contract has no modifies clause')
            for m in c.modifies:
                head, _, rest = m.partition('.')
                base = argmap.get(head)
                if base is None:
                    raise Unsupported(f'loop body: cannot map modifies path {m} of {key}')
                full = base + ('.' + rest if rest else '')
                if full.split('.')[0] in assigned:
                    # an object bound inside the loop body: not loop-carried state -- provided every
                    # binding of that name in the body is a constructor call (a fresh object, no alias)
                    nm_ = full.split('.')[0]
                    for a_ in ast.walk(ast.Module(body=node.body, type_ignores=[])):
                        if isinstance(a_, ast.Assign) and any(isinstance(t_, ast.Name) and t_.id == nm_ for t_ in a_.targets):
                            v_ = a_.value
                            if not (isinstance(v_, ast.Call) and isinstance(v_.func, ast.Name) and v_.func.id[:1].isupper()):
                                raise Unsupported(f'loop body mutates {full} through a local that may alias outer state')
                    continue
                o = val(full)
                if isinstance(o, (ZList, HDict, list)):
                    add_obj(full)
                elif isinstance(o, HObj):
                    add_obj_deep(full, o)
                elif full not in paths:
                    paths.append(full)

        def add_obj_deep(path, o):
            for k, x in o.f.items():
                if isinstance(x, (ZList, HDict)):
                    add_obj(f'{path}.{k}')
                elif isinstance(x, HObj):
                    add_obj_deep(f'{path}.{k}', x)
                elif f'{path}.{k}' not in paths:
                    paths.append(f'{path}.{k}')

        for n in ast.walk(ast.Module(body=node.body, type_ignores=[])):
            if isinstance(n, (ast.Assign, ast.AugAssign, ast.Delete)):
                tg = n.targets if isinstance(n, (ast.Assign, ast.Delete)) else [n.target]
                for t in tg:
                    if isinstance(t, ast.Subscript):
                        b = simple(t.value)
                        if b is None:
                            raise Unsupported('loop body stores through a complex expression')
                        add_obj(b)
                    elif isinstance(t, ast.Attribute):
                        b = simple(t)
                        if b is None:
                            raise Unsupported('loop body stores through a complex expression')
                        if b.split('.')[0] not in assigned and b not in paths:
                            paths.append(b)
            if not isinstance(n, ast.Call):
                continue
            f = n.func
            if isinstance(f, ast.Attribute):
                b = simple(f.value)
                o = val(b) if b is not None else None
                if isinstance(o, (ZList, HDict, list, HByteArray, SymSet)):
                    if f.attr in self._MUTATORS:
                        add_obj(b)
                    continue
                if isinstance(o, HObj):
                    m = None
                    for c in o.cls.__mro__:
                        if f.attr in c.__dict__:
                            m = c.__dict__[f.attr]
                            break
                    key = self.src.key_of(m) if m is not None else None
                    if key is None:
                        raise Unsupported(f'loop body calls unknown method {f.attr}')
                    from_contract(key, {'self': b})
                    continue
                continue     # method of an immutable / module-level value
            if isinstance(f, ast.Name):
                found, fv = env.lookup(f.id)
                if not found:
                    fv = (self.frames[-1]['globs'] if self.frames else {}).get(f.id)
                key = self.src.key_of(fv) if isinstance(fv, (types.FunctionType,)) else None
                if key is None:
                    continue
                node_f = self.src.node(key)
                pnames = [a.arg for a in node_f.args.args]
                argmap = {}
                for pn, a in zip(pnames, n.args):
                    sp = simple(a)
                    if sp is not None:
                        argmap[pn] = sp
                from_contract(key, argmap)
        return paths, objs

    def havoc_path(self, env, path):
        from .heap import havoc_inplace, havoc_value
        parts = path.split('.')
        found, o = env.lookup(parts[0])
        if not found:
            raise Unsupported(f'modifies path {path}: no variable {parts[0]}')
        if len(parts) == 1:
            havoc_inplace(self, o, parts[0])
            return
        for p in parts[1:-1]:
            o = o.f[p]
        last = parts[-1]
        cur = o.f[last]
        if isinstance(cur, (ZList, HDict)):
            havoc_inplace(self, cur, path)
        else:
            o.f[last] = havoc_value(self, cur, path)

    def st_Break(self, st, env):
        raise _Break()

    def st_Continue(self, st, env):
        raise _Continue()

    def st_FunctionDef(self, st, env):
        env.vars[st.name] = AstFunc(st, self.frames[-1]['globs'] if self.frames else {}, env, name=st.name)

    def st_Match(self, st, env):
        subj = self.ev(st.subject, env)
        for case in st.cases:
            if case.guard is not None:
                raise Unsupported('match guard')
            if self.match_pattern(case.pattern, subj):
                self.run_block(case.body, env)
                return

    def match_pattern(self, p, subj):
        if isinstance(p, ast.MatchValue):
            v = self.ev(p.value, Env({}))
            return self.ctx.branch(self.truth(self.compare('Eq', subj, v)), 'match')
        if isinstance(p, ast.MatchOr):
            return any(self.match_pattern(q, subj) for q in p.patterns)
        if isinstance(p, ast.MatchAs) and p.pattern is None and p.name is None:
            return True
        raise Unsupported(f'match pattern {type(p).__name__}')

    # --------------------------------------------------------------------------- expressions
    def ev(self, e, env):
        m = getattr(self, 'ev_' + type(e).__name__, None)
        if m is None:
            raise Unsupported(f'expression {type(e).__name__}')
        return m(e, env)

    def ev_Constant(self, e, env):
        return e.value

    def ev_Name(self, e, env):
        found, v = env.lookup(e.id)
        if found:
            return v
        g = self.frames[-1]['globs'] if self.frames else {}
        ov = self.ctx.ghost.get('globals')
        if ov and e.id in ov and e.id in g and str(g.get('__name__', '')).startswith('tapescript'):
            return ov[e.id]          # a module-level registry treated as an arbitrary (symbolic) value
        if e.id in g:
            return g[e.id]
        if hasattr(builtins, e.id):
            return getattr(builtins, e.id)
        raise Unsupported(f'unbound name {e.id}')

    def ev_Tuple(self, e, env):
        return tuple(self.ev_elts(e.elts, env))

    def ev_List(self, e, env):
        return list(self.ev_elts(e.elts, env))

    def ev_Set(self, e, env):
        vals = self.ev_elts(e.elts, env)
        if all(is_concrete(v) for v in vals):
            return set(vals)
        return SymSet(vals)

    def ev_elts(self, elts, env):
        out = []
        for x in elts:
            if isinstance(x, ast.Starred):
                out.extend(self.iter_concrete(self.ev(x.value, env)))
            else:
                out.append(self.ev(x, env))
        return out

    def ev_Dict(self, e, env):
        d = {}
        for k, v in zip(e.keys, e.values):
            if k is None:
                src = self.resolve(self.ev(v, env))
                if isinstance(src, dict):
                    d.update(src)
                elif isinstance(src, HDict):
                    if d:
                        # {**concrete, **symbolic}: overlay
                        base = self.models.hdict_from_concrete(self, d)
                        return self._dict_overlay_rest(self.models.hdict_overlay(self, base, src), e, env, e.values.index(v) + 1)
                    return self._dict_overlay_rest(self.models.hdict_copy(self, src), e, env, e.values.index(v) + 1)
                else:
                    raise Unsupported('** of non-dict')
            else:
                kk = self.ev(k, env)
                if not is_concrete(kk):
                    raise Unsupported('dict display with symbolic key')
                d[kk] = self.ev(v, env)
        return d

    def _dict_overlay_rest(self, hd, e, env, start):
        for k, v in list(zip(e.keys, e.values))[start:]:
            if k is None:
                src = self.resolve(self.ev(v, env))
                if isinstance(src, dict):
                    src = self.models.hdict_from_concrete(self, src)
                hd = self.models.hdict_overlay(self, hd, src)
            else:
                self.setitem(hd, self.ev(k, env), self.ev(v, env))
        return hd

    def ev_JoinedStr(self, e, env):
        parts = []
        for v in e.values:
            if isinstance(v, ast.Constant):
                parts.append(v.value)
            elif isinstance(v, ast.FormattedValue):
                x = self.resolve(self.ev(v.value, env))
                if v.format_spec is not None or v.conversion not in (-1, 115):
                    if is_concrete(x):
                        spec = self.ev(v.format_spec, env) if v.format_spec is not None else ''
                        conv = {-1: '', 115: '!s', 114: '!r', 97: '!a'}[v.conversion]
                        parts.append(('{' + conv + ':' + spec + '}' if spec else '{' + conv + '}').format(x))
                        continue
                    raise Unsupported('f-string format spec on symbolic value')
                parts.append(self.models.to_str(self, x))
        return self.models.str_concat(self, parts)

    def ev_Attribute(self, e, env):
        o = self.ev(e.value, env)
        return self.getattr_(o, e.attr)

    def getattr_(self, o, attr):
        o = self.resolve(o)
        if isinstance(o, HObj):
            if attr in o.f:
                return o.f[attr]
            for c in o.cls.__mro__:
                if attr in c.__dict__:
                    v = c.__dict__[attr]
                    if isinstance(v, (staticmethod,)):
                        return v.__func__
                    if isinstance(v, classmethod):
                        return BoundMethod(o.cls, v.__func__)
                    if isinstance(v, types.FunctionType):
                        return BoundMethod(o, v)
                    return v
            self.raise_(AttributeError, attr)
        if isinstance(o, PyExcVal):
            if attr == '__class__':
                return o.cls
            if attr == 'args':
                return o.args
            raise Unsupported(f'exception attribute {attr}')
        if isinstance(o, type) and self.src.key_of(getattr(o.__dict__.get(attr), '__func__', o.__dict__.get(attr))) :
            v = o.__dict__[attr]
            if isinstance(v, staticmethod):
                return v.__func__
            if isinstance(v, classmethod):
                return BoundMethod(o, v.__func__)
            return v
        m = self.models.attr_model(self, o, attr)
        if m is not _MISSING:
            return m
        if getattr(o, '_symbolic', False) and attr in getattr(o, '__dict__', {}):
            return getattr(o, attr)
        if is_concrete(o) or isinstance(o, (types.ModuleType, type)):
            try:
                return getattr(o, attr)
            except AttributeError:
                self.raise_(AttributeError, attr)
        return _Method(o, attr)

    def setattr_(self, o, attr, v):
        self.heap_write_guard()
        o = self.resolve(o)
        if isinstance(o, HObj):
            o.f[attr] = v
            return
        raise Unsupported(f'attribute store on {type(o).__name__}')

    def ev_index(self, s, env):
        if isinstance(s, ast.Slice):
            return slice(self.ev(s.lower, env) if s.lower else None,
                         self.ev(s.upper, env) if s.upper else None,
                         self.ev(s.step, env) if s.step else None)
        return self.ev(s, env)

    def ev_Subscript(self, e, env):
        o = self.ev(e.value, env)
        k = self.ev_index(e.slice, env)
        return self.getitem(o, k)

    def getitem(self, o, k):
        return self.models.getitem(self, self.resolve(o), k)

    def setitem(self, o, k, v):
        self.heap_write_guard()
        return self.models.setitem(self, self.resolve(o), k, v)

    def delitem(self, o, k):
        self.heap_write_guard()
        return self.models.delitem(self, self.resolve(o), k)

    def ev_UnaryOp(self, e, env):
        op = type(e.op).__name__
        if op == 'Not':
            t = self.truth(self.ev(e.operand, env))      # (truth() decides a dynamically typed value without a fork)
            return (not t) if isinstance(t, bool) else z3.Not(t)
        v = self.resolve(self.ev(e.operand, env))
        if op == 'USub':
            if is_concrete(v):
                return -v
            if is_sym_int(v) or is_sym_bool(v):
                return -zint(v)
            if isinstance(v, SF):
                return SF(sym.f_sub(sym.fexpr(0.0), v.e))
        if op == 'UAdd' and (is_concrete(v) or is_sym_int(v)):
            return +v if is_concrete(v) else v
        if op == 'Invert' and is_concrete(v):
            return ~v
        raise Unsupported(f'unary {op} on {type(v).__name__}')

    def ev_BinOp(self, e, env):
        a = self.ev(e.left, env)
        b = self.ev(e.right, env)
        return self.binop(type(e.op).__name__, a, b)

    def binop(self, op, a, b, inplace=False):
        return self.models.binop(self, op, self.resolve(a), self.resolve(b), inplace)

    def ev_BoolOp(self, e, env):
        isand = isinstance(e.op, ast.And)
        vals = e.values
        # value semantics: `a and b` yields a if a is falsy else b.  For symbolic booleans we try to
        # build And/Or without forking when the later operands can be evaluated speculatively.
        cur = self.ev(vals[0], env)
        for nxt in vals[1:]:
            t = self.truth(cur)
            if isinstance(t, bool):
                if t != isand:
                    return cur
                cur = self.ev(nxt, env)
                continue
            cb = sym.concrete_bool(t)
            if cb is not None:
                if cb != isand:
                    return cur
                cur = self.ev(nxt, env)
                continue
            guard = t if isand else z3.Not(t)
            box = {}

            def f(scratch, nxt=nxt, box=box):
                box['v'] = self.ev(nxt, scratch)
                return scratch.vars
            out = self.speculate(f, env, guard)
            if out is not None and (is_sym_bool(cur) or isinstance(cur, bool)):
                v = box['v']
                tv = self.truth(v)
                if isinstance(v, bool) or is_sym_bool(v):
                    cur = z3.And(t, zbool(tv)) if isand else z3.Or(t, zbool(tv))
                    continue
            if out is not None and not (is_sym_bool(cur) or isinstance(cur, bool)):
                # non-boolean left operand used only for its truth value in most code; keep exact
                # value semantics by forking
                pass
            if self.ctx.branch(t, 'boolop') != isand:
                return cur
            cur = self.ev(nxt, env)
        return cur

    def ev_IfExp(self, e, env):
        c = self.truth(self.ev(e.test, env))
        if not isinstance(c, bool):
            cb = sym.concrete_bool(c)
            if cb is not None:
                c = cb
        if not isinstance(c, bool) and self.ctx.ghost.get('lemma_mode') and not self.ctx.ghost.get('speculating', 0):
            # lemma mode keeps control flow concrete wherever the path condition decides it
            if self.ctx.valid(c):
                c = True
            elif self.ctx.valid(z3.Not(c)):
                c = False
        if isinstance(c, bool):
            return self.ev(e.body if c else e.orelse, env)
        if self.ctx.ghost.get('lemma_mode') and not self.ctx.ghost.get('speculating', 0):
            # lemma mode: fork rather than merge (a merged value may be program text, e.g. the body
            # OP_IF_ELSE selects, and control flow must stay concrete)
            if self.ctx.branch(c, 'ifexp'):
                return self.ev(e.body, env)
            return self.ev(e.orelse, env)
        # try ite merge
        boxes = []
        for arm, g in ((e.body, c), (e.orelse, z3.Not(c))):
            box = {}

            def f(scratch, arm=arm, box=box):
                box['v'] = self.ev(arm, scratch)
                return scratch.vars
            if self.speculate(f, env, g) is None:
                boxes = None
                break
            boxes.append(box['v'])
        if boxes is not None:
            m = self.ite(c, boxes[0], boxes[1])
            if m is not _MISSING:
                return m
        if self.ctx.branch(c, 'ifexp'):
            return self.ev(e.body, env)
        return self.ev(e.orelse, env)

    def ev_Compare(self, e, env):
        left = self.ev(e.left, env)
        res = None
        for op, rn in zip(e.ops, e.comparators):
            right = self.ev(rn, env)
            r = self.compare(type(op).__name__, left, right)
            if res is None:
                res = r
            else:
                tr, tn = self.truth(res), self.truth(r)
                if isinstance(tr, bool):
                    res = tn if tr else False
                elif isinstance(tn, bool):
                    res = tr if tn else False
                else:
                    res = z3.And(tr, tn)
            left = right
        return res

    def compare(self, op, a, b):
        if op in ('Eq', 'NotEq') and (isinstance(a, SV) or isinstance(b, SV)):
            # equality with a dynamically typed value is decided at the Val level, without a type fork
            try:
                r = self.to_val(a) == self.to_val(b)
                return r if op == 'Eq' else z3.Not(r)
            except Unsupported:
                pass
        return self.models.compare(self, op, self.resolve(a), self.resolve(b))

    def ev_Lambda(self, e, env):
        return AstFunc(e, self.frames[-1]['globs'] if self.frames else {}, env, name='<lambda>')

    def ev_ListComp(self, e, env):
        return self._comp(e, env, 'list')

    def ev_GeneratorExp(self, e, env):
        return self._comp(e, env, 'list')

    def ev_SetComp(self, e, env):
        vals = self._comp(e, env, 'list')
        return set(vals) if all(is_concrete(v) for v in vals) else SymSet(vals)

    def ev_DictComp(self, e, env):
        return self._comp(e, env, 'dict')

    def _comp(self, e, env, kind):
        if len(e.generators) != 1:
            raise Unsupported('nested comprehension')
        g = e.generators[0]
        it = self.resolve(self.ev(g.iter, env))
        key, k = self._loop_ordinal()
        rng = self.as_range(it)
        if rng is not None and all(isinstance(x, int) for x in rng):
            seq = list(range(*rng))
        elif isinstance(it, (list, tuple, set, frozenset, range, str, bytes)):
            seq = list(it)
        elif isinstance(it, dict):
            seq = list(it)
        elif isinstance(it, _ItemsView):
            seq = list(it.pairs)
        elif isinstance(it, SymSet):
            seq = list(it.items)
        else:
            spec = self.reg.loop_spec(key, k) if self.reg else None
            return self.symbolic_comprehension(e, env, it, spec, key, k, kind)
        scope = Env({}, env)
        out = [] if kind == 'list' else {}
        if isinstance(it, list):
            i = 0
            while i < len(it):     # live list length (CPython semantics; exposes mutate-while-iterating)
                self.assign(g.target, it[i], scope)
                i += 1
                if all(self.test(self.ev(c, scope), 'compif') for c in g.ifs):
                    if kind == 'list':
                        out.append(self.ev(e.elt, scope))
                    else:
                        out[self.ev(e.key, scope)] = self.ev(e.value, scope)
            return out
        for x in seq:
            self.assign(g.target, x, scope)
            if all(self.test(self.ev(c, scope), 'compif') for c in g.ifs):
                if kind == 'list':
                    out.append(self.ev(e.elt, scope))
                else:
                    out[self.ev(e.key, scope)] = self.ev(e.value, scope)
        return out

    def symbolic_comprehension(self, e, env, it, spec, key, k, kind):
        """[elt for target in it] with a symbolic trip count: a loop appending to a result list that
        invariants call `res`"""
        if kind != 'list':
            raise Unsupported('symbolic dict comprehension')
        g = e.generators[0]
        rng_ = self.as_range(it)
        if spec is None and rng_ is not None and rng_[2] == 1 and not g.ifs and isinstance(e.elt, ast.Constant) \
                and isinstance(e.elt.value, (str, bytes)):
            # [const for _ in range(n)]: a list of max(0, hi - lo) items (their values are not stated)
            z = ZList('val' if isinstance(e.elt.value, str) else 'bytes')
            d_ = zint(rng_[1]) - zint(rng_[0])
            self.ctx.define(zint(z.ln) == z3.If(d_ > 0, d_, 0))
            return z
        if spec is None:
            raise Unsupported(f'loop {key}#{k}: symbolic trip count and no invariant in the sidecar')
        name = f'__comp{k}'
        scope = Env({}, env)
        keep = spec.get('elem', 'bytes') != 'none'
        scope.vars[name] = []
        if keep:
            stmt = ast.Expr(ast.Call(func=ast.Attribute(value=ast.Name(id=name, ctx=ast.Load()), attr='append',
                                                        ctx=ast.Load()), args=[e.elt], keywords=[]))
        else:
            stmt = ast.Expr(e.elt)
        body = [stmt]
        for c in reversed(g.ifs):
            body = [ast.If(test=c, body=body, orelse=[])]
        node = ast.For(target=g.target, iter=g.iter, body=body, orelse=[])
        ast.fix_missing_locations(node)
        prev = self.ctx.ghost.get('comp_var')
        self.ctx.ghost['comp_var'] = name
        try:
            self.for_loop(key, k, spec, g.target, it, body, scope, node)
        finally:
            self.ctx.ghost['comp_var'] = prev
        return scope.vars[name] if keep else ZList('val')

    def iter_concrete(self, v):
        v = self.resolve(v)
        if isinstance(v, (list, tuple)):
            return list(v)
        if isinstance(v, (set, frozenset, dict, range, str)):
            return list(v)
        if isinstance(v, bytes):
            return list(v)
        if isinstance(v, _ItemsView):
            return list(v.pairs)
        if isinstance(v, SymSet):
            return list(v.items)
        if isinstance(v, ZList):
            n = sym.concrete_int(v.ln)
            if n is not None:
                return [self.zl_get(v, i) for i in range(n)]
        if isinstance(v, SB):
            n = v.length()
            if isinstance(n, int):
                return [self.getitem(v, i) for i in range(n)]
        raise Unsupported(f'iteration over symbolic {type(v).__name__}')

    def zl_get(self, zl, i):
        if zl.items is not None and isinstance(i, int) and 0 <= i < len(zl.items):
            return zl.items[i]
        e = z3.Select(zl.arr, zint(i))
        return sym_bytes(e) if zl.elem == 'bytes' else SV(e)

    # ---------------------------------------------------------------------------------- calls
    def ev_Call(self, e, env):
        args = []
        for a in e.args:
            if isinstance(a, ast.Starred):
                args.extend(self.iter_concrete(self.ev(a.value, env)))
            else:
                args.append(self.ev(a, env))
        kwargs = {}
        for kw in e.keywords:
            if kw.arg is None:
                d = self.ev(kw.value, env)
                if not isinstance(d, dict):
                    raise Unsupported('**kwargs of symbolic dict')
                kwargs.update(d)
            else:
                kwargs[kw.arg] = self.ev(kw.value, env)
        f = e.func
        if isinstance(f, ast.Attribute):
            recv = self.ev(f.value, env)
            recv = self.resolve(recv)
            r = self.models.method_model(self, recv, f.attr, args, kwargs)
            if r is not _MISSING:
                return r
            fn = self.getattr_(recv, f.attr)
        else:
            fn = self.ev(f, env)
        return self.call(fn, args, kwargs, site=e)

    def call_method(self, obj, name, args, kwargs):
        r = self.models.method_model(self, obj, name, args, kwargs)
        if r is not _MISSING:
            return r
        return self.call(self.getattr_(obj, name), args, kwargs)

    def call(self, fn, args, kwargs, site=None):
        fn = self.resolve(fn)
        if isinstance(fn, BoundMethod):
            return self.call(fn.fn, [fn.obj] + list(args), kwargs, site)
        if isinstance(fn, AstFunc):
            if fn.key is not None:
                return self.call_repo(fn, args, kwargs)
            return self.call_ast(fn, args, kwargs)
        if isinstance(fn, _Method):
            r = self.models.method_model(self, fn.obj, fn.name, args, kwargs)
            if r is _MISSING:
                raise Unsupported(f'method {fn.name} on {type(fn.obj).__name__}')
            return r
        if isinstance(fn, SEnum):
            return self.models.call_enum(self, fn, args, kwargs)
        if isinstance(fn, Opaque):
            return self.models.call_opaque(self, fn, args, kwargs)
        if fn is None or isinstance(fn, (bool, int, float, bytes, str, SB, SStr, SF, ZList, HDict, tuple, list, dict)) \
                or is_sym_int(fn) or is_sym_bool(fn):
            self.raise_(TypeError, 'object is not callable')
        if isinstance(fn, (types.FunctionType, types.MethodType)):
            af = self.wrap_function(fn)
            if af is not None:
                if isinstance(fn, types.MethodType):
                    args = [fn.__self__] + list(args)
                return self.call_repo(af, args, kwargs)
        if isinstance(fn, types.FunctionType) and self.reg is not None:
            m = self.models.call_model(self, fn, args, kwargs)
            if m is not _MISSING:
                return m
            sf = self.reg.side_ast(fn)
            if sf is not None:
                return self.call_ast(sf, args, kwargs)
        if isinstance(fn, type):
            r = self.models.construct(self, fn, args, kwargs)
            if r is not _MISSING:
                return r
        m = self.models.call_model(self, fn, args, kwargs)
        if m is not _MISSING:
            return m
        if all(is_concrete(a) for a in args) and all(is_concrete(v) for v in kwargs.values()) and callable(fn) \
                and self.models.native_ok(fn):
            try:
                return fn(*args, **kwargs)
            except Exception as ex:           # noqa: BLE001 -- a native raise is a program outcome
                raise PyRaise(type(ex), PyExcVal(type(ex), ex.args))
        raise Unsupported(f'call to {getattr(fn, "__qualname__", fn)!r} with symbolic arguments (no model)')

    def call_repo(self, f: AstFunc, args, kwargs):
        """Call of a repository function: modular (contract) unless the policy says inline."""
        pol = self.reg.policy(f.key) if self.reg else 'inline'
        if f.key in self.ctx.ghost.get('inline_extra', ()):
            pol = 'inline'
        if pol == 'inline':
            c_ = self.reg.get(f.key) if self.reg else None
            if c_ is not None and c_.loops_decl and self.ctx.ghost.get('lemma_mode'):
                # a function with loop invariants executed from its body inside a lemma: the invariants
                # speak about `old`, the state at THIS call
                from .apply import Old
                from .heap import snapshot
                params = self.bind_args(f, args, kwargs)
                saved = self.ctx.ghost.get('old')
                self.ctx.ghost['old'] = Old(snapshot(dict(params)))
                try:
                    return self.call_ast(f, args, kwargs)
                finally:
                    self.ctx.ghost['old'] = saved
            return self.call_ast(f, args, kwargs)
        if pol == 'contract':
            from .apply import apply_contract
            return apply_contract(self, f, args, kwargs)
        if pol == 'native' and all(is_concrete(a) for a in args) and all(is_concrete(v) for v in kwargs.values()):
            live = self.src.live_fn(f.key)
            try:
                return live(*args, **kwargs)
            except BaseException as ex:      # noqa: BLE001
                raise PyRaise(type(ex), PyExcVal(type(ex), ex.args))
        raise Unsupported(f'call to {f.key}: no contract in the sidecar')


class _Missing:
    def __repr__(self):
        return 'MISSING'


_MISSING = _Missing()


class _Method:
    """Unresolved method reference on a modelled value (resolved when called)."""

    def __init__(self, obj, name):
        self.obj = obj
        self.name = name


_VAL_CTORS = {'vbytes': 0, 'vint': 1, 'vblist': 2, 'vbool': 3, 'vstr': 4, 'vfloat': 5, 'vnone': 6, 'vref': 7, 'vopq': 8}


class LazyClause:
    def __init__(self, f):
        self.f = f


class _SymRange:
    def __init__(self, lo, hi, step=1):
        self.lo, self.hi, self.step = lo, hi, step


class _ItemsView:
    def __init__(self, pairs):
        self.pairs = pairs

"""pyvc.heap -- snapshots, havoc and state comparison for the executor's heap values."""
from __future__ import annotations
import z3
from . import sym
from .sym import (SB, SStr, SF, SV, ZList, HDict, HObj, HByteArray, SymSet, Opaque, VAL, I, BYTES, STR, F,
                  is_z3, is_sym_int, is_sym_bool, zint, zbool, fresh, sym_bytes, is_bytes, bexpr, blen)
from .interp import Unsupported


def snapshot(v, memo=None):
    """deep copy preserving sharing; immutable and symbolic scalar values are shared."""
    if memo is None:
        memo = {}
    i = id(v)
    if i in memo:
        return memo[i]
    if isinstance(v, HObj):
        c = HObj(v.cls, {}, oid=v.oid)
        memo[i] = c
        for k, x in v.f.items():
            c.f[k] = snapshot(x, memo)
        if hasattr(v, 'unknown'):
            c.unknown = v.unknown
        return c
    if isinstance(v, ZList):
        if v.items is not None:
            c = ZList(v.elem, kind=v.kind, maxlen=v.maxlen, items=list(v.items))
        else:
            c = ZList(v.elem, v.arr, v.ln, kind=v.kind, maxlen=v.maxlen)
        c.oid = v.oid
        memo[i] = c
        return c
    if isinstance(v, HDict):
        c = HDict(v.name, dict(v.maps))
        c.oid = v.oid
        c.valtype = v.valtype
        memo[i] = c
        c.refs = {'list': [(r, snapshot(o, memo)) for r, o in v.refs.get('list', [])]}
        memo[i] = c
        return c
    if isinstance(v, HByteArray):
        c = HByteArray(v.v)
        memo[i] = c
        return c
    if isinstance(v, SymSet):
        c = SymSet([snapshot(x, memo) for x in v.items])
        memo[i] = c
        return c
    if isinstance(v, list):
        c = []
        memo[i] = c
        c.extend(snapshot(x, memo) for x in v)
        return c
    if isinstance(v, dict):
        c = {}
        memo[i] = c
        for k, x in v.items():
            c[k] = snapshot(x, memo)
        return c
    if isinstance(v, tuple):
        return tuple(snapshot(x, memo) for x in v)
    return v


def _mk(det):
    return (lambda n, s: z3.Const(n, s)) if det else fresh


def fresh_like(ip, v, name, det=False):
    """A fresh symbolic value of the same python type as v."""
    mk = _mk(det)
    if isinstance(v, bool) or is_sym_bool(v):
        return mk(name, z3.BoolSort())
    if isinstance(v, int) or is_sym_int(v):
        return mk(name, I)
    if is_bytes(v):
        return sym_bytes(mk(name, BYTES))
    if isinstance(v, (str, SStr)):
        return SStr(mk(name, STR))
    if isinstance(v, (float, SF)):
        return SF(mk(name, F))
    if isinstance(v, SV):
        return SV(mk(name, VAL))
    return None


def havoc_value(ip, v, name, elem=None):
    """Value of a local variable after an unknown number of loop iterations."""
    r = fresh_like(ip, v, name)
    if r is not None:
        return r
    if v is None:
        return None
    if isinstance(v, list):
        if elem == 'val':
            z = ZList('val')
            ip.ctx.assume(zint(z.ln) >= 0)
            return z
        if all(is_bytes(x) for x in v):
            z = ZList('bytes')
            ip.ctx.assume(zint(z.ln) >= 0)
            return z
        raise Unsupported(f'havoc of python list {name} with non-bytes elements')
    if isinstance(v, ZList):
        z = ZList(v.elem, kind=v.kind, maxlen=v.maxlen)
        ip.ctx.assume(zint(z.ln) >= 0)
        return z
    if isinstance(v, HByteArray):
        return HByteArray(sym_bytes(fresh(name, BYTES)))
    if isinstance(v, SymSet):
        r = SymSet([])
        r.unknown = True          # contents after the loop are not tracked
        return r
    if isinstance(v, tuple):
        return tuple(havoc_value(ip, x, f'{name}{i}') for i, x in enumerate(v))
    if isinstance(v, (HObj, HDict, Opaque)):
        return v        # object identity of loop-carried references is kept; contents via `modifies`
    return v


def havoc_inplace(ip, o, name, det=False):
    mk = _mk(det)
    if isinstance(o, ZList):
        o.arr = mk(name + '_arr', o.arr.sort())
        o.ln = mk(name + '_len', I)
        ip.ctx.assume(o.ln >= 0)
        return
    if isinstance(o, HDict):
        o.maps = {sp: mk(f'{name}_{sp}', z3.ArraySort(s, VAL)) for sp, s in HDict.SPACES.items()}
        return
    from .sym import HByteArray as _HBA
    if isinstance(o, _HBA):
        o.v = sym_bytes(mk(name + '_bytes', BYTES))
        return
    if isinstance(o, HObj):
        for k, x in list(o.f.items()):
            if isinstance(x, (ZList, HDict, HObj)):
                havoc_inplace(ip, x, f'{name}.{k}', det)
            else:
                r = fresh_like(ip, x, f'{name}.{k}', det)
                if r is not None:
                    o.f[k] = r
        return
    raise Unsupported(f'havoc of {type(o).__name__} at {name}')


# ------------------------------------------------------------------------------------------------
def val_equiv(va, vb):
    """equality of dict values; lists of bytes are compared by contents (length, kind, items)"""
    if va.eq(vb):
        return z3.BoolVal(True)
    j = fresh('j', I)
    V = VAL
    lists = z3.And(V.is_vblist(va), V.is_vblist(vb), V.ll(va) == V.ll(vb), V.lt(va) == V.lt(vb),
                   z3.ForAll([j], z3.Implies(z3.And(j >= 0, j < V.ll(va)),
                                             z3.Select(V.la(va), j) == z3.Select(V.la(vb), j))))
    return z3.Or(va == vb, lists)


def same_value(ip, a, b, label, out, seen=None, prefix=''):
    """Append obligations (label, z3 Bool) stating that a and b are the same value / have the same
    contents.  Structural for heap objects; skolemised for arrays."""
    if seen is None:
        seen = set()
    if a is b:
        return
    if isinstance(a, SV):
        a = a.e
    if isinstance(b, SV):
        b = b.e
    if isinstance(a, HObj) and isinstance(b, HObj):
        if (id(a), id(b)) in seen:
            return
        seen.add((id(a), id(b)))
        if a.cls is not b.cls:
            out.append((label, z3.BoolVal(False)))
            return
        for k in sorted(set(a.f) | set(b.f)):
            if k not in a.f or k not in b.f:
                out.append((f'{label}.{k}', z3.BoolVal(False)))
            else:
                same_value(ip, a.f[k], b.f[k], f'{label}.{k}', out, seen)
        return
    if isinstance(a, ZList) and isinstance(b, ZList):
        out.append((f'{label}.len', zint(a.ln) == zint(b.ln)))
        j = fresh('j', I)
        out.append((f'{label}.items', z3.Implies(z3.And(j >= 0, j < zint(a.ln)),
                                                 z3.Select(a.arr, j) == z3.Select(b.arr, j))))
        if a.kind != b.kind:
            out.append((f'{label}.kind', z3.BoolVal(False)))
        return
    if isinstance(a, HDict) and isinstance(b, HDict):
        for sp, srt in HDict.SPACES.items():
            k = fresh(f'k{sp}', srt)
            out.append((f'{label}[{sp}]', val_equiv(z3.Select(a.maps[sp], k), z3.Select(b.maps[sp], k))))
        return
    if isinstance(a, HByteArray) and isinstance(b, HByteArray):
        return same_value(ip, a.v, b.v, label, out, seen)
    if isinstance(a, (list, tuple)) and isinstance(b, (list, tuple)) and type(a) is type(b):
        if len(a) != len(b):
            out.append((f'{label}.len', z3.BoolVal(False)))
            return
        for i, (x, y) in enumerate(zip(a, b)):
            same_value(ip, x, y, f'{label}[{i}]', out, seen)
        return
    if isinstance(a, dict) and isinstance(b, dict):
        if set(a) != set(b):
            out.append((f'{label}.keys', z3.BoolVal(False)))
            return
        for k in a:
            same_value(ip, a[k], b[k], f'{label}[{k!r}]', out, seen)
        return
    # list vs ZList (a spec may build a python list where the body builds a symbolic one)
    if isinstance(a, (list, tuple)) and isinstance(b, ZList):
        a, b = b, a
    if isinstance(a, ZList) and isinstance(b, (list, tuple)):
        out.append((f'{label}.len', zint(a.ln) == len(b)))
        for i, y in enumerate(b):
            out.append((f'{label}[{i}]', z3.Select(a.arr, i) == (bexpr(y) if a.elem == 'bytes' else ip.to_val(y))))
        return
    from .models import eq
    try:
        c = eq(ip, a, b)
    except Unsupported:
        if is_z3(a) and is_z3(b) and a.sort() == b.sort():
            c = a == b
        else:
            raise
    out.append((label, zbool(c) if not isinstance(c, bool) else z3.BoolVal(c)))

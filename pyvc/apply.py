"""pyvc.apply -- use of a callee's contract at a call site (the callee's body is not looked at)."""
from __future__ import annotations
import z3
from .sym import zint, zbool, fresh, I
from .interp import Unsupported, PyRaise, PyExcVal, AstFunc, Env
from .heap import snapshot, havoc_inplace, fresh_like
from . import sym


class Old:
    """namespace of entry values: old.<param>"""

    def __init__(self, d):
        self.__dict__.update(d)


def _caller(ip):
    return ip.frames[-1]['key'] if ip.frames else '<top>'


def _site_ordinal(ip, callee):
    fr = ip.frames[-1] if ip.frames else None
    if fr is None:
        return 0
    n = fr['call'].get(callee, 0)
    fr['call'][callee] = n + 1
    return n


def call_contract_fn(ip, c, which, params, extra=None):
    """call requires / ensures / spec of contract c with the given parameter values"""
    f = ip.reg.contract_fn(c, which)
    if f is None:
        return None
    names = [a.arg for a in f.node.args.args]
    vals = []
    for n in names:
        if extra and n in extra:
            vals.append(extra[n])
        elif n in params:
            vals.append(params[n])
        else:
            raise Unsupported(f'contract {c.key}.{which}: unknown parameter {n}')
    return ip.call_ast(f, vals, {})


def apply_contract(ip, f: AstFunc, args, kwargs):
    c = ip.reg.get(f.key)
    params = ip.bind_args(f, args, kwargs)
    caller = _caller(ip)
    short = f.key.split('.', 1)[1]
    k = _site_ordinal(ip, short)
    site = f'{caller}/pre[{short}#{k}]'
    ctx = ip.ctx
    used = ctx.ghost.setdefault('contracts_used', set())
    used.add(f.key)
    # 1. preconditions are obligations of the caller
    pre = call_contract_fn(ip, c, 'requires', params)
    for label, cond in ip.clauses(pre):
        ctx.oblige(f'{site}/{label}', cond, 'pre')
        ctx.assume(cond)
    old = Old(snapshot(dict(params)))
    spec = ip.reg.contract_fn(c, 'spec')
    raised = None
    result = None
    if spec is not None:
        # deterministic summary executed in place on the caller's objects
        try:
            names = [a.arg for a in spec.node.args.args]
            result = ip.call_ast(spec, [params[n] for n in names], {})
        except PyRaise as r:
            raised = r
    else:
        # havoc what the contract says may change, then pick an outcome
        for path in (c.modifies or ()):
            _havoc_path(ip, params, path)
        n_out = 1 + len(c.raises)
        if n_out > 1:
            ch = ctx.choose([True] * n_out, f'outcome[{short}]')
            if ch > 0:
                cls = c.raises[ch - 1]
                raised = PyRaise(cls, PyExcVal(cls, ()))
        if raised is None and c.returns is not None:
            from .state import Mk
            result = Mk(ip).of(c.returns, f'ret_{short}{k}')
    # 3. assume the postconditions
    post = call_contract_fn(ip, c, 'ensures', params,
                            {'old': old, 'result': result, 'raised': raised.cls if raised else None})
    for label, cond in ip.clauses(post):
        ctx.assume(cond)
    if raised is not None:
        raise raised
    return result


def _havoc_path(ip, params, path):
    parts = path.split('.')
    o = params[parts[0]]
    if len(parts) == 1:
        havoc_inplace(ip, o, parts[0])
        return
    for p in parts[1:-1]:
        o = o.f[p]
    cur = o.f[parts[-1]]
    if isinstance(cur, (sym.ZList, sym.HDict, sym.HObj)):
        havoc_inplace(ip, cur, path)
    else:
        r = fresh_like(ip, cur, path)
        if r is None:
            raise Unsupported(f'havoc of {path}')
        o.f[parts[-1]] = r

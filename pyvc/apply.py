"""pyvc.apply -- use of a callee's contract at a call site (the callee's body is not looked at)."""
from __future__ import annotations
import z3
from .sym import zint, zbool, fresh, I
from .interp import Unsupported, PyRaise, PyExcVal, AstFunc, Env, PathAbort
from .heap import snapshot, havoc_inplace, fresh_like
from . import sym, vocab


class Old:
    """namespace of entry values: old.<param>"""

    def __init__(self, d):
        self.__dict__.update(d)


def _caller(ip):
    return ip.frames[-1]['key'] if ip.frames else '<top>'


def _site_ordinal(ip, callee):
    fr = ip.frames[-1] if ip.frames else None
    if fr is None:
        return 0
    n = fr['call'].get(callee, 0)
    fr['call'][callee] = n + 1
    return n


def all_clauses(ip, c, which, params, extra=None):
    """clauses of `requires` / `ensures` of c and of the contracts it extends: [(label, cond)]"""
    out = []
    seen = set()
    while c is not None and c.key not in seen:
        seen.add(c.key)
        pre = '' if not out and len(seen) == 1 else c.name + ':'
        out.extend((pre + l if not l.startswith('!') else '!' + pre + l[1:], cd)
                   for l, cd in ip.clauses(call_contract_fn(ip, c, which, params, extra)))
        c = ip.reg.get(c.extends) if c.extends else None
    return out


def call_spec(ip, spec, params):
    """call a spec function (same signature as the real function, possibly with *varargs)"""
    vals = [params[a.arg] for a in spec.node.args.args]
    if spec.node.args.vararg is not None:
        vals.extend(params[spec.node.args.vararg.arg])
    return ip.call_ast(spec, vals, {})


def call_contract_fn(ip, c, which, params, extra=None):
    """call requires / ensures / spec of contract c with the given parameter values"""
    f = ip.reg.contract_fn(c, which)
    if f is None:
        return None
    names = [a.arg for a in f.node.args.args]
    vals = []
    for n in names:
        if extra and n in extra:
            vals.append(extra[n])
        elif n in params:
            vals.append(params[n])
        elif n.startswith('G') and n[1:] in (ip.ctx.ghost.get('globals') or {}):
            vals.append(ip.ctx.ghost['globals'][n[1:]])
        elif n.startswith('G_') and hasattr(ip.src.module_of(c.key), n[1:]):
            from . import models as _m
            vals.append(_m.hdict_from_concrete(ip, getattr(ip.src.module_of(c.key), n[1:])))
        elif which == 'ensures' and ip.ctx.ghost.get('body_env') is not None and c.key == ip.verifying:
            # a local variable of the verified body (None if the path never assigned it)
            found, v = ip.ctx.ghost['body_env'].lookup(n)
            vals.append(v if found else None)
        elif which == 'ensures' and c.key != ip.verifying:
            vals.append(None)        # a local of the callee's body: not visible at a call site
        else:
            raise Unsupported(f'contract {c.key}.{which}: unknown parameter {n}')
    try:
        return ip.call_ast(f, vals, {})
    except PyRaise as r:
        # an error inside contract text (requires / ensures) is never program behaviour
        raise Unsupported(f'contract {c.key}.{which} raised {r.cls.__name__}: {getattr(r.value, "args", "")}')


def apply_contract(ip, f: AstFunc, args, kwargs):
    c = ip.reg.get(f.key)
    params = ip.bind_args(f, args, kwargs)
    return apply_to_params(ip, c, params)


def apply_to_params(ip, c, params):
    from .sym import SV
    for n_, v_ in list(params.items()):
        if isinstance(v_, SV) and v_.hint is not None:
            params[n_] = ip.resolve(v_)       # an object reference read from a dict: the object itself
    caller = _caller(ip)
    short = c.key.split('.', 1)[1]
    k = _site_ordinal(ip, short)
    site = f'{caller}/pre[{short}#{k}]'
    ctx = ip.ctx
    used = ctx.ghost.setdefault('contracts_used', set())
    used.add(c.key)
    # 0. call-site assertions of the caller's contract (over the caller's locals and `callee`)
    fr = ip.frames[-1] if ip.frames else None
    if fr is not None and fr.get('key') == ip.verifying and ip.spec_depth == 0:
        cc = ip.reg.get(fr['key'])
        sites = cc.cls.__dict__.get('sites', {}) if cc is not None else {}
        sf = sites.get((short, k), sites.get(short))
        if sf is not None:
            af = ip.reg.side_ast(getattr(sf, '__func__', sf))
            vals = []
            for n in [a.arg for a in af.node.args.args]:
                if n == 'callee':
                    vals.append(Old(dict(params)))
                elif n == 'old':
                    vals.append(ctx.ghost.get('old'))
                elif n.startswith('G') and n[1:] in (ctx.ghost.get('globals') or {}):
                    vals.append(ctx.ghost['globals'][n[1:]])       # module global, current state
                elif n.startswith('arg_') and n[4:] in (ctx.ghost.get('params') or {}):
                    vals.append(ctx.ghost['params'][n[4:]])        # the object passed as parameter, current state
                else:
                    found, v = fr['env'].lookup(n)
                    if not found:
                        raise Unsupported(f'site assertion {cc.key}[{short}#{k}]: no local {n}')
                    vals.append(v)
            for label, cond in ip.clauses(ip.call_ast(af, vals, {})):
                ctx.oblige(f'{caller}/site[{short}#{k}]/{label}', ip.cval(cond), 'site')
    # 1. preconditions are obligations of the caller
    for label, cond in all_clauses(ip, c, 'requires', params):
        cond = ip.cval(cond)
        ctx.oblige(f'{site}/{label}', cond, 'pre')
        ctx.assume(cond)
    oparams = dict(params)
    for gn, gv in (ctx.ghost.get('globals') or {}).items():
        oparams.setdefault('G' + gn, gv)      # module globals the callee's contract speaks about
    old = Old(snapshot(oparams))
    # 1b. recursion measure: a (directly) recursive call must decrease the measure of the verified function
    mf = c.cls.__dict__.get('measure')
    if mf is not None and c.key == ip.verifying and ctx.ghost.get('old') is not None and not ctx.ghost.get('in_spec'):
        af = ip.reg.side_ast(getattr(mf, '__func__', mf))
        names_ = [a.arg for a in af.node.args.args]
        m_new = ip.call_ast(af, [params[n] for n in names_], {})
        m_old = ip.call_ast(af, [getattr(ctx.ghost['old'], n) for n in names_], {})
        from .sym import zint as _zi
        ctx.oblige(f'{site}/measure', z3.And(_zi(m_new) >= 0, _zi(m_new) < _zi(m_old)), 'variant')
    spec = (ctx.ghost.get('spec_override') or {}).get(c.key) or ip.reg.contract_fn(c, 'spec')
    raised = None
    result = None
    if spec is not None:
        # deterministic summary executed in place on the caller's objects
        try:
            result = call_spec(ip, spec, params)
        except PyRaise as r:
            if r.cls is vocab.SpecUnavailable:
                spec = None
            else:
                raised = r
    if spec is not None:
        pass
    elif _is_noop(ip, c, params):
        # the contract's own postcondition says nothing changes in this situation (e.g. no plugin
        # installed): apply that directly instead of havoc followed by assumed equalities
        pass
    else:
        # havoc what the contract says may change, then pick an outcome
        mods = c.modifies
        par = c
        while mods is None and par is not None and par.extends:
            par = ip.reg.get(par.extends)
            mods = par.modifies if par is not None else None
        tag = f'{short}#{ctx.count("apply:" + c.key)}'
        _same_inputs(ip, c, tag, params)
        hp = dict(params)
        for gn, gv in (ctx.ghost.get('globals') or {}).items():
            hp['G' + gn] = gv
        for path in (mods or ()):
            _havoc_path(ip, hp, path, tag)
        n_out = 1 + len(c.raises)
        if n_out > 1:
            # which outcome: an unknown but fixed function of (callee, call ordinal), so that body run
            # and spec run of a refinement check agree
            oc = z3.Int(f'outcome_{tag}')
            ch = ctx.choose([oc == j for j in range(n_out)], f'outcome[{short}]')
            if ch > 0:
                cls = c.raises[ch - 1]
                raised = PyRaise(cls, PyExcVal(cls, ()))
        if raised is None and c.pure is not None:
            result = pure_result(ip, c, params)
        elif raised is None and c.returns is not None:
            from .state import Mk
            result = Mk(ip).of(c.returns, f'ret_{short}{k}')
    # 3. assume the postconditions
    post = all_clauses(ip, c, 'ensures', params,
                       {'old': old, 'result': result, 'raised': raised.cls if raised else None})
    for label, cond in post:
        if not label.startswith('!'):      # '!' clauses are obligations of the callee only, never assumed
            ctx.assume(ip.cval(cond))
    if spec is None and not ctx.ghost.get('speculating', 0) and not ctx.feasible():
        raise PathAbort('infeasible')      # the chosen outcome contradicts the callee's postcondition
    if raised is not None:
        raise raised
    return result


def _same_inputs(ip, c, tag, params):
    """The unknown effect of a spec-less callee is modelled as a function of (callee, call ordinal).
    That is only right if the spec run of a refinement check calls it with the same arguments as the
    body run did: the body run records its arguments, the spec run must match them."""
    g = ip.ctx.ghost
    if ip.verifying is None:
        return
    rec = g.setdefault('det_inputs', {})
    if not g.get('in_spec'):
        if ip.spec_depth == 0 or True:
            rec[tag] = snapshot(dict(params))
        return
    from .heap import same_value
    prev = rec.get(tag)
    if prev is None:
        ip.ctx.oblige(f'{ip.verifying}/refine/args[{tag}]/called-by-body', False, 'refine')
        return
    for n, v in params.items():
        out = []
        same_value(ip, prev[n], v, n, out)
        for label, cnd in out:
            ip.ctx.oblige(f'{ip.verifying}/refine/args[{tag}]/{label}', cnd, 'refine')


def _is_noop(ip, c, params):
    f = c.cls.__dict__.get('noop_when')
    if f is None:
        return False
    af = ip.reg.side_ast(getattr(f, '__func__', f))
    cond = ip.truth(ip.call_ast(af, [params[a.arg] for a in af.node.args.args], {}))
    if isinstance(cond, bool):
        return cond
    return ip.ctx.valid(cond)


def _havoc_path(ip, params, path, tag):
    """havoc with names determined by (callee, call ordinal on this path, location): the unknown
    effect of the callee is a function of where it is called, so that the body run and the spec run
    of a refinement check see the same unknown"""
    parts = path.split('.')
    o = params[parts[0]]
    nm = f'{tag}.{path}'
    if len(parts) == 1:
        havoc_inplace(ip, o, nm, det=True)
        return
    for p in parts[1:-1]:
        o = o.f[p]
    cur = o.f[parts[-1]]
    if isinstance(cur, (sym.ZList, sym.HDict, sym.HObj)):
        havoc_inplace(ip, cur, nm, det=True)
    else:
        r = fresh_like(ip, cur, nm, det=True)
        if r is None:
            raise Unsupported(f'havoc of {path}')
        o.f[parts[-1]] = r


def pure_result(ip, c, params):
    """result of a pure function as an application of an uninterpreted function to its arguments"""
    name, rsort = c.pure
    args = []
    for v in params.values():
        v = ip.resolve(v)
        if isinstance(v, bool) or sym.is_sym_bool(v):
            args.append(zbool(v))
        elif isinstance(v, int) or sym.is_sym_int(v):
            args.append(zint(v))
        elif sym.is_bytes(v):
            args.append(sym.bexpr(v))
        else:
            raise Unsupported(f'pure contract {c.key}: argument of type {type(v).__name__}')
    rs = {'bytes': sym.BYTES, 'int': I, 'bool': z3.BoolSort()}[rsort]
    f = z3.Function(name, *[a.sort() for a in args], rs)
    r = f(*args)
    return sym.sym_bytes(r) if rsort == 'bytes' else r

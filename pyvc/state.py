"""pyvc.state -- symbolic initial states from type descriptors."""
from __future__ import annotations
import z3
from . import sym
from .sym import (SB, SStr, SF, SV, ZList, HDict, HObj, Opaque, VAL, I, BYTES, STR, F, zint, fresh, sym_bytes)
from .interp import Unsupported


class Mk:
    """builder handed to `state` / `cases` functions of a contract"""

    def __init__(self, ip):
        self.ip = ip
        self.src = ip.src

    def assume(self, c):
        self.ip.ctx.assume(c)

    def int(self, name='n', lo=None, hi=None):
        v = z3.Int(name)
        if lo is not None:
            self.assume(v >= lo)
        if hi is not None:
            self.assume(v <= hi)
        return v

    def bool(self, name='b'):
        return z3.Bool(name)

    def bytes(self, name='b', n=None):
        e = z3.Const(name, BYTES)
        if n is not None:
            self.assume(z3.Length(e) == n)
        return sym_bytes(e, n)

    def bytearray(self, name='ba'):
        from .sym import HByteArray
        return HByteArray(self.bytes(name))

    def str(self, name='s'):
        return SStr(z3.Const(name, STR))

    def float(self, name='f'):
        return SF(z3.Const(name, F))

    def any(self, name='v'):
        e = z3.Const(name, VAL)
        self.assume(z3.Not(VAL.is_absent(e)))
        self.assume(z3.Not(VAL.is_vref(e)))      # objects of other classes are represented by vopq
        return SV(e)

    def list_bytes(self, name='l', kind='list'):
        z = ZList('bytes', z3.Const(name + '_arr', sym.ARR_IB), z3.Int(name + '_len'), kind=kind)
        self.assume(z.ln >= 0)
        return z

    def dict(self, name='d'):
        return HDict(name, {sp: z3.Const(f'{name}_{sp}', z3.ArraySort(s, VAL)) for sp, s in HDict.SPACES.items()})

    def stack(self, name='stack'):
        cls = self.src.live['classes'].Stack
        mi = z3.Int(name + '_max_items')
        ms = z3.Int(name + '_max_item_size')
        dq = ZList('bytes', z3.Const(name + '_arr', sym.ARR_IB), z3.Int(name + '_len'), kind='deque', maxlen=mi)
        self.assume(dq.ln >= 0)
        return HObj(cls, {'max_items': mi, 'max_item_size': ms, 'deque': dq})

    def tape(self, name='tape', **over):
        cls = self.src.live['classes'].Tape
        f = {
            'data': self.bytes(name + '_data'),
            'pointer': z3.Int(name + '_pointer'),
            'callstack_limit': z3.Int(name + '_cs_limit'),
            'callstack_count': z3.Int(name + '_cs_count'),
            'definitions': self.dict(name + '_defs'),
            'flags': self.dict(name + '_flags'),
            'contracts': self.dict(name + '_contracts'),
            'plugins': self.dict(name + '_plugins'),
        }
        f['definitions'].valtype = 'Tape'
        f['plugins'].valtype = 'list'
        f['contracts'].valtype = 'opaque'
        f.update(over)
        return HObj(cls, f)

    def opaque(self, name='o'):
        return Opaque(name, z3.Int(name + '_id'))

    def of(self, desc, name):
        if callable(desc):
            return desc(self, name)
        if desc == 'int':
            return self.int(name)
        if desc == 'nat':
            return self.int(name, lo=0)
        if desc == 'bool':
            return self.bool(name)
        if desc == 'bytes':
            return self.bytes(name)
        if isinstance(desc, str) and desc.startswith('bytes') and desc[5:].isdigit():
            return self.bytes(name, int(desc[5:]))
        if desc == 'str':
            return self.str(name)
        if desc == 'float':
            return self.float(name)
        if desc == 'any':
            return self.any(name)
        if desc == 'Stack':
            return self.stack(name)
        if desc == 'Tape':
            return self.tape(name)
        if desc in ('Cache', 'dict'):
            return self.dict(name)
        if desc == 'dict[list]':
            d = self.dict(name)
            d.valtype = 'list'
            return d
        if desc == 'list[any]':
            z = ZList('val', kind='list')
            self.assume(zint(z.ln) >= 0)
            return z
        if desc == 'list[bytes]':
            return self.list_bytes(name)
        if desc == 'tuple[bytes]':
            return self.list_bytes(name, kind='tuple')
        if desc == 'tuple3':
            return (self.bytes(name + '0'), self.bytes(name + '1'), self.bytes(name + '2'))
        if desc == 'opaque':
            return self.opaque(name)
        if isinstance(desc, tuple) and desc[0] == 'tuple':
            return tuple(self.of(d, f'{name}{i}') for i, d in enumerate(desc[1:]))
        if isinstance(desc, tuple) and desc[0] == 'const':
            return desc[1]
        raise Unsupported(f'type descriptor {desc!r}')

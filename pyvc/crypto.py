"""pyvc.crypto -- models of the libsodium / PyNaCl entry points used by tapescript.

Level 1 (always): every entry point is an uninterpreted function of its arguments with the argument
checks PyNaCl performs (exception classes observed on this image) and the output length.  This is an
ASSUMED contract on the dependency (trusted base, listed in every evidence file).
Level 2 (lemma mode, E1-E4 of DESIGN.md 2.5): algebraic facts are supplied by prelude lemmas on
request (use_lemma('ed_...')).
"""
from __future__ import annotations
import z3
import nacl.bindings as nb
import nacl.exceptions as ne
import nacl.signing
from . import sym, models
from .sym import BYTES, I, zint, sym_bytes, is_bytes, bexpr, blen, HObj
from .interp import Unsupported, PyRaise, PyExcVal, is_concrete
from .models import raise_

Bo = z3.BoolSort()
sred = z3.Function('ed_scalar_reduce', BYTES, BYTES)
base = z3.Function('ed_base_noclamp', BYTES, BYTES)
base_fail = z3.Function('ed_base_fails', BYTES, Bo)
validpt = z3.Function('ed_is_valid_point', BYTES, Bo)
oncurve = z3.Function('ed_on_curve', BYTES, Bo)
padd = z3.Function('ed_add', BYTES, BYTES, BYTES)
psub = z3.Function('ed_sub', BYTES, BYTES, BYTES)
sadd = z3.Function('ed_scalar_add', BYTES, BYTES, BYTES)
ssub = z3.Function('ed_scalar_sub', BYTES, BYTES, BYTES)
smul = z3.Function('ed_scalar_mul', BYTES, BYTES, BYTES)
pmul = z3.Function('ed_scalarmult_noclamp', BYTES, BYTES, BYTES)
pmul_fail = z3.Function('ed_scalarmult_fails', BYTES, BYTES, Bo)
ed_verify = z3.Function('ed_verify', BYTES, BYTES, BYTES, Bo)        # key, message, 64-byte signature
ed_sign = z3.Function('ed_sign', BYTES, BYTES, BYTES)                # seed, message -> signature
vk_ok = z3.Function('ed_vk_ok', BYTES, Bo)                           # VerifyKey(b).verify does not reject the key


def _need_bytes(ip, v, n, what, exc=ne.TypeError):
    v = ip.resolve(v)
    if isinstance(v, sym.HByteArray):
        v = v.v
    if not is_bytes(v):
        raise_(exc, f'{what} must be bytes')
    if not ip.ctx.branch(zint(blen(v)) == n, f'{what} length'):
        raise_(exc, f'{what} must be {n} bytes')
    return v


def _out(ip, e, n=32):
    ip.ctx.define(z3.Length(e) == n, lenfact=True)
    return sym_bytes(e, n)


def _all_concrete(*a):
    return all(is_concrete(x) for x in a)


def m_scalar_reduce(ip, s):
    s = _need_bytes(ip, s, 64, 'scalar')
    return _out(ip, sred(bexpr(s)))


def m_base_noclamp(ip, n):
    n = _need_bytes(ip, n, 32, 'scalar')
    e = bexpr(n)
    if not ip.ctx.branch(z3.Not(base_fail(e)), 'base ok'):
        raise_(ne.RuntimeError, 'Unexpected library error')
    r = base(e)
    ip.ctx.define(z3.Implies(z3.Not(base_fail(e)), z3.And(validpt(r) == validpt(r), oncurve(r))))
    return _out(ip, r)


def m_is_valid_point(ip, p):
    p = _need_bytes(ip, p, 32, 'point')
    e = bexpr(p)
    ip.ctx.define(z3.Implies(validpt(e), oncurve(e)))
    return validpt(e)


def _pt2(ip, p, q, f):
    p = _need_bytes(ip, p, 32, 'point')
    q = _need_bytes(ip, q, 32, 'point')
    a, b = bexpr(p), bexpr(q)
    if not ip.ctx.branch(z3.And(oncurve(a), oncurve(b)), 'points on curve'):
        raise_(ne.RuntimeError, 'Unexpected library error')
    r = f(a, b)
    ip.ctx.define(z3.Implies(z3.And(oncurve(a), oncurve(b)), oncurve(r)))
    return _out(ip, r)


def m_add(ip, p, q):
    return _pt2(ip, p, q, padd)


def m_sub(ip, p, q):
    return _pt2(ip, p, q, psub)


def _sc2(ip, a, b, f):
    a = _need_bytes(ip, a, 32, 'scalar')
    b = _need_bytes(ip, b, 32, 'scalar')
    return _out(ip, f(bexpr(a), bexpr(b)))


def m_scalar_add(ip, a, b):
    return _sc2(ip, a, b, sadd)


def m_scalar_sub(ip, a, b):
    return _sc2(ip, a, b, ssub)


def m_scalar_mul(ip, a, b):
    return _sc2(ip, a, b, smul)


def m_scalarmult_noclamp(ip, n, p):
    n = _need_bytes(ip, n, 32, 'scalar')
    p = _need_bytes(ip, p, 32, 'point')
    a, b = bexpr(n), bexpr(p)
    if not ip.ctx.branch(z3.Not(pmul_fail(a, b)), 'scalarmult ok'):
        raise_(ne.RuntimeError, 'Unexpected library error')
    r = pmul(a, b)
    ip.ctx.define(z3.Implies(z3.Not(pmul_fail(a, b)), oncurve(r)))
    return _out(ip, r)


class SKey:
    _symbolic = True
    _pytype = nacl.signing.SigningKey

    def __init__(self, seed):
        self.seed = seed


class VKey:
    _symbolic = True
    _pytype = nacl.signing.VerifyKey

    def __init__(self, key):
        self.key = key


class Signed:
    _symbolic = True

    def __init__(self, sig, msg):
        self.signature = sig
        self.message = msg


def c_signing_key(ip, seed, *a, **k):
    seed = ip.resolve(seed)
    if not is_bytes(seed):
        raise_(ne.TypeError, 'SigningKey must be created from a 32 byte seed')
    if not ip.ctx.branch(zint(blen(seed)) == 32, 'seed length'):
        raise_(ne.ValueError, 'The seed must be exactly 32 bytes long')
    return SKey(seed)


def c_verify_key(ip, key, *a, **k):
    key = ip.resolve(key)
    if not is_bytes(key):
        raise_(ne.TypeError, 'VerifyKey must be created from 32 bytes')
    if not ip.ctx.branch(zint(blen(key)) == 32, 'key length'):
        raise_(ne.ValueError, 'The key must be exactly 32 bytes long')
    return VKey(key)


def skey_sign(ip, sk, msg, *a):
    msg = ip.resolve(msg)
    if not is_bytes(msg):
        raise_(TypeError, 'message must be bytes')
    e = ed_sign(bexpr(sk.seed), bexpr(msg))
    ip.ctx.define(z3.Length(e) == 64, lenfact=True)
    return Signed(sym_bytes(e, 64), msg)


def vkey_verify(ip, vk, smessage, signature=None, *a):
    msg = ip.resolve(smessage)
    sig = ip.resolve(signature)
    if sig is None:
        raise Unsupported('VerifyKey.verify(combined)')
    if not is_bytes(sig) or not is_bytes(msg):
        raise_(ne.TypeError, 'verify arguments must be bytes')
    if not ip.ctx.branch(zint(blen(sig)) == 64, 'sig length'):
        raise_(ne.ValueError, 'The signature must be exactly 64 bytes long')
    if not ip.ctx.branch(ed_verify(bexpr(vk.key), bexpr(msg), bexpr(sig)), 'signature valid'):
        raise_(ne.BadSignatureError, 'Signature was forged or corrupt')
    return msg


def method(ip, o, name, args, kwargs):
    if isinstance(o, nacl.signing.SigningKey) and not all(is_concrete(a) for a in args):
        o = SKey(bytes(o))
    if isinstance(o, nacl.signing.VerifyKey) and not all(is_concrete(a) for a in args):
        o = VKey(bytes(o))
    if isinstance(o, SKey):
        if name == 'sign':
            return skey_sign(ip, o, *args)
        if name == '__bytes__':
            return o.seed
    if isinstance(o, VKey):
        if name == 'verify':
            return vkey_verify(ip, o, *args, **kwargs)
        if name == '__bytes__':
            return o.key
    return models._MISSING


def install():
    always = {
        nb.crypto_core_ed25519_scalar_reduce: m_scalar_reduce,
        nb.crypto_scalarmult_ed25519_base_noclamp: m_base_noclamp,
        nb.crypto_core_ed25519_is_valid_point: m_is_valid_point,
        nb.crypto_core_ed25519_add: m_add,
        nb.crypto_core_ed25519_sub: m_sub,
        nb.crypto_core_ed25519_scalar_add: m_scalar_add,
        nb.crypto_core_ed25519_scalar_sub: m_scalar_sub,
        nb.crypto_core_ed25519_scalar_mul: m_scalar_mul,
        nb.crypto_scalarmult_ed25519_noclamp: m_scalarmult_noclamp,
    }
    for f, m in always.items():
        models.register_model(f, m)
    models.register_class(nacl.signing.SigningKey, c_signing_key)
    models.register_class(nacl.signing.VerifyKey, c_verify_key)
    models.register_method_hook(method)


install()

"""pyvc.prelude -- named axioms about the uninterpreted prelude functions.

Every axiom has (a) a logical form added to the obligations of the contracts that name it and
(b) a native predicate exercised by the axiom conformance pass (selftest.py) against CPython.
"""
from __future__ import annotations
import z3
from . import sym
from .sym import I, BYTES, zint, bexpr

a, b, n, k = z3.Ints('a!ax b!ax n!ax k!ax')
x, y = z3.Consts('x!ax y!ax', BYTES)

AXIOMS = {
    # P1: powers of two
    'pow2': [
        sym.pow2(0) == 1,
        z3.ForAll([a], z3.Implies(a >= 0, sym.pow2(a + 1) == 2 * sym.pow2(a)), patterns=[sym.pow2(a + 1)]),
        z3.ForAll([a], z3.Implies(a >= 0, sym.pow2(a) >= 1), patterns=[sym.pow2(a)]),
        z3.ForAll([a, b], z3.Implies(z3.And(0 <= a, a <= b), sym.pow2(a) <= sym.pow2(b)),
                  patterns=[z3.MultiPattern(sym.pow2(a), sym.pow2(b))]),
        z3.ForAll([a], z3.Implies(a >= 0, sym.pow2(a + 8) == 256 * sym.pow2(a)), patterns=[sym.pow2(a + 8)]),
    ],
    # P2: bit length of a positive integer
    'bitlen': [
        sym.bitlen(0) == 0,
        z3.ForAll([n], z3.Implies(n > 0, z3.And(sym.bitlen(n) >= 1, sym.pow2(sym.bitlen(n) - 1) <= n,
                                                n < sym.pow2(sym.bitlen(n)))), patterns=[sym.bitlen(n)]),
    ],
    # A-LOG2 (assumption about CPython's float log2): floor(log2(n)) is never below bitlen(n)-1 and
    # over by at most one
    'log2': [
        z3.ForAll([n], z3.Implies(n > 0, z3.And(sym.flog2(n) >= sym.bitlen(n) - 1, sym.flog2(n) <= sym.bitlen(n))),
                  patterns=[sym.flog2(n)]),
    ],
    # P3: big-endian value of a byte string
    'ubig': [
        z3.ForAll([x], z3.And(sym.ubig(x) >= 0, sym.ubig(x) < sym.pow2(8 * z3.Length(x))), patterns=[sym.ubig(x)]),
        z3.ForAll([n, k], z3.Implies(z3.And(k >= 0, n >= 0, n < sym.pow2(8 * k)),
                                     z3.And(z3.Length(sym.tobytes(n, k)) == k, sym.ubig(sym.tobytes(n, k)) == n)),
                  patterns=[sym.tobytes(n, k)]),
        z3.ForAll([x], sym.tobytes(sym.ubig(x), z3.Length(x)) == x, patterns=[sym.ubig(x)]),
        # top byte: ubig(x) div 256^(len-1) is the first byte
        z3.ForAll([x], z3.Implies(z3.Length(x) >= 1,
                                  z3.BV2Int(x[0]) == sym.ubig(x) / sym.pow2(8 * (z3.Length(x) - 1))),
                  patterns=[sym.ubig(x)]),
    ],
    'ulittle': [
        z3.ForAll([x], z3.And(sym.ulittle(x) >= 0, sym.ulittle(x) < sym.pow2(8 * z3.Length(x))),
                  patterns=[sym.ulittle(x)]),
    ],
    # hash output lengths
    'hashlen': [
        z3.ForAll([x], z3.Length(sym.sha256_f(x)) == 32, patterns=[sym.sha256_f(x)]),
        z3.ForAll([x], z3.Length(sym.sha512_f(x)) == 64, patterns=[sym.sha512_f(x)]),
        z3.ForAll([x, n], z3.Implies(n >= 0, z3.Length(sym.shake256_f(x, n)) == n), patterns=[sym.shake256_f(x, n)]),
    ],
}


def axioms(names):
    out = []
    for nm in names:
        out.extend(AXIOMS[nm])
    return out


def instantiate(name, terms, ip=None):
    """ground instances of named lemmas, requested explicitly by a contract (use_lemma)."""
    if name == 'pow2_step':       # pow2(t+1) == 2*pow2(t) for t >= 0
        t = zint(terms[0])
        return [z3.Implies(t >= 0, sym.pow2(t + 1) == 2 * sym.pow2(t))]
    if name == 'pow2_pos':
        t = zint(terms[0])
        return [z3.Implies(t >= 0, sym.pow2(t) >= 1)]
    if name == 'pow2_mono':
        s, t = zint(terms[0]), zint(terms[1])
        return [z3.Implies(z3.And(0 <= s, s <= t), sym.pow2(s) <= sym.pow2(t))]
    if name == 'pow2_add':
        s, t = zint(terms[0]), zint(terms[1])
        return [z3.Implies(z3.And(0 <= s, 0 <= t), sym.pow2(s + t) == sym.pow2(s) * sym.pow2(t))]
    if name == 'seq_ext':         # two byte strings of equal length with equal elements are equal
        p, q = bexpr(terms[0]), bexpr(terms[1])
        j = z3.Int('j!ext')
        return [z3.Implies(z3.And(z3.Length(p) == z3.Length(q),
                                  z3.ForAll([j], z3.Implies(z3.And(0 <= j, j < z3.Length(p)), p[j] == q[j]))), p == q)]
    if name == 'iprod_step':      # definition of iprod unfolded once at k, with a common factor c:
        # c * iprod(arr, k+1) == (c * iprod(arr, k)) * sdec(arr[k])   for k >= 0
        from . import vocab_sym
        items = terms[0]
        kk = zint(terms[1])
        c = zint(terms[2])
        arr = items.arr
        f = vocab_sym.iprod_f
        return [z3.Implies(kk >= 0, f(arr, kk + 1) == f(arr, kk) * vocab_sym.sdec_f(z3.Select(arr, kk))),
                z3.Implies(kk >= 0, c * f(arr, kk + 1) == (c * f(arr, kk)) * vocab_sym.sdec_f(z3.Select(arr, kk)))]
    if name == 'iprodc_step':     # iprodc(c, arr, k+1) == iprodc(c, arr, k) * sdec(arr[k])  for k >= 0
        from . import vocab_sym
        items = terms[0]
        kk = zint(terms[1])
        c = zint(terms[2])
        f = vocab_sym.iprodc_f
        from .models import mul_f
        return [z3.Implies(kk >= 0, f(c, items.arr, kk + 1) == mul_f(f(c, items.arr, kk), vocab_sym.sdec_f(z3.Select(items.arr, kk))))]
    if name == 'zeros_step':      # zeros(k+1) == zeros(k) + b'\\x00'  for k >= 0
        from . import vocab_sym
        kk = zint(terms[0])
        z = vocab_sym.zeros_f
        return [z3.Implies(kk >= 0, z(kk + 1) == z3.Concat(z(kk), z3.Unit(z3.BitVecVal(0, 8)))),
                z3.Length(z(kk + 1)) == z3.If(kk + 1 < 0, 0, kk + 1), z3.Length(z(kk)) == z3.If(kk < 0, 0, kk)]
    if name == 'xor_zero':        # P-XOR: the little-endian value of a xor b is zero iff a == b (equal lengths)
        p, q = bexpr(terms[0]), bexpr(terms[1])
        xf = z3.Function('xor_f', BYTES, BYTES, BYTES)
        return [z3.Implies(z3.Length(p) == z3.Length(q), (sym.ulittle(xf(p, q)) == 0) == (p == q))]
    raise KeyError(name)

"""pyvc.loader -- reads the real source of /repo on every run.

* parses /repo/tapescript/*.py (current working tree) with `ast`;
* imports the live package from the same tree (module-level tables, classes, constants);
* maps live function objects back to their AST by (module, qualname);
* records sha256 of every file and of every function body that is put under contract.

Dropped by reading: docstrings, annotations, comments (nothing else).
"""
from __future__ import annotations
import ast
import hashlib
import importlib
import os
import sys
import types

REPO = os.environ.get('VERIF_REPO', '/repo')
PKG = 'tapescript'
MODULES = ('errors', 'classes', 'interfaces', 'functions', 'parsing', 'AMHL', 'tools')


class Source:
    def __init__(self, repo=REPO):
        self.repo = repo
        self.trees = {}       # module short name -> ast.Module
        self.text = {}
        self.file_hash = {}
        self.funcs = {}       # 'module.qualname' -> ast.FunctionDef
        self.live = {}        # module short name -> live module
        self._load()

    def _load(self):
        if self.repo not in sys.path:
            sys.path.insert(0, self.repo)
        for m in list(sys.modules):
            if m == PKG or m.startswith(PKG + '.'):
                del sys.modules[m]
        for m in MODULES:
            path = os.path.join(self.repo, PKG, m + '.py')
            with open(path, 'rb') as f:
                raw = f.read()
            self.text[m] = raw.decode()
            self.file_hash[m] = hashlib.sha256(raw).hexdigest()
            tree = ast.parse(self.text[m], filename=path)
            self.trees[m] = tree
            self._index(m, tree.body, '')
        # time.time is pinned before import by callers that need it (replay); here plain import
        for m in MODULES:
            self.live[m] = importlib.import_module(f'{PKG}.{m}')
        got = os.path.realpath(os.path.dirname(self.live['functions'].__file__))
        want = os.path.realpath(os.path.join(self.repo, PKG))
        if got != want:
            raise RuntimeError(f'live package imported from {got}, expected {want}')

    def _index(self, mod, body, prefix):
        for n in body:
            if isinstance(n, (ast.FunctionDef,)):
                self.funcs[f'{mod}.{prefix}{n.name}'] = n
            elif isinstance(n, ast.ClassDef):
                self._index(mod, n.body, f'{prefix}{n.name}.')
            elif isinstance(n, (ast.If, ast.Try)):
                # module-level conditional definitions (hash fallbacks): index both arms
                for sub in ast.iter_child_nodes(n):
                    if isinstance(sub, list):
                        continue
                for field in ('body', 'orelse', 'finalbody'):
                    self._index(mod, getattr(n, field, []) or [], prefix)
                for h in getattr(n, 'handlers', []) or []:
                    self._index(mod, h.body, prefix)

    # ----------------------------------------------------------------------------------------
    def key_of(self, fn):
        """live function object -> 'module.qualname' or None."""
        fn = getattr(fn, '__func__', fn)
        mod = getattr(fn, '__module__', None)
        if not mod or not mod.startswith(PKG + '.'):
            return None
        key = f'{mod[len(PKG) + 1:]}.{fn.__qualname__}'
        return key if key in self.funcs else None

    def node(self, key):
        return self.funcs[key]

    def body_hash(self, key):
        n = self.funcs[key]
        body = n.body
        if body and isinstance(body[0], ast.Expr) and isinstance(getattr(body[0], 'value', None), ast.Constant) \
                and isinstance(body[0].value.value, str):
            body = body[1:]
        dump = ast.dump(ast.Module(body=body, type_ignores=[]), annotate_fields=False, include_attributes=False)
        args = ast.dump(n.args, annotate_fields=False, include_attributes=False)
        return hashlib.sha256((args + dump).encode()).hexdigest()[:16]

    def module_of(self, key):
        return self.live[key.split('.', 1)[0]]

    def live_fn(self, key):
        mod, qual = key.split('.', 1)
        o = self.live[mod]
        for p in qual.split('.'):
            o = o.__dict__[p] if isinstance(o, type) else getattr(o, p)
        return getattr(o, '__func__', o)


_SRC = None


def source(reload=False):
    global _SRC
    if _SRC is None or reload:
        _SRC = Source()
    return _SRC

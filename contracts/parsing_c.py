"""Contracts for tapescript/parsing.py.  Oracle: property C12 (decompiling always terminates, never
reads backwards) and the docstrings."""
from pyvc.contracts import contract
from pyvc.vocab import forall, implies
from contracts.common import tape_ok


@contract('parsing.decompile_script')
class decompile_script_c:
    """'Decompile the byte code into human-readable script.'  C12: terminates on every byte string
    (loop variant: unread bytes; recursion measure: length of the script, every nested body is
    strictly shorter than the script that contains it), every Tape.read is called with size >= 0
    (precondition of Tape.read: the pointer never moves backwards), and the result is a list."""
    params = {'script': 'any', 'indent': 'int'}
    modifies = ()
    raises = (BaseException,)
    returns = 'list[any]'

    def requires(script, indent):
        return [('indent', indent >= 0)]

    def measure(script, indent):
        return len(script)

    def ensures(old, script, indent, result, raised):
        return [('bytes-only', implies(raised is None, lambda: type(script) is bytes))]

    def inv0(tape, script):
        return tape_ok(tape) + [('same-script', tape.data == script)]

    def var0(tape):
        return len(tape.data) - tape.pointer
    loops = {0: {'inv': inv0, 'variant': var0, 'modifies': ('tape.pointer',), 'locals': ('code_lines',),
                 'lists': {'code_lines': 'val'}}}

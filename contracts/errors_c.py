"""Contracts for tapescript/errors.py: the four assertion helpers.  'Raises <Error> with the given
message if the condition check fails.'  They are inlined at call sites (policy INLINE); these contracts
are what justifies treating `if g: sert(c)` as one conditional raise (g and not c)."""
from pyvc.contracts import contract
from tapescript.errors import ScriptExecutionError, SyntaxError


@contract('errors.sert')
class sert_c:
    params = {'condition': 'bool', 'message': ('const', '')}
    modifies = ()
    assertlike = ScriptExecutionError

    def spec(condition, message):
        if not condition:
            raise ScriptExecutionError


@contract('errors.vert')
class vert_c:
    params = {'condition': 'bool', 'message': ('const', '')}
    modifies = ()
    assertlike = ValueError

    def spec(condition, message):
        if not condition:
            raise ValueError


@contract('errors.tert')
class tert_c:
    params = {'condition': 'bool', 'message': ('const', '')}
    modifies = ()
    assertlike = TypeError

    def spec(condition, message):
        if not condition:
            raise TypeError


@contract('errors.yert')
class yert_c:
    params = {'condition': 'bool', 'message': ('const', '')}
    modifies = ()
    assertlike = SyntaxError

    def spec(condition, message):
        if not condition:
            raise SyntaxError

"""Contracts for tapescript/classes.py (Tape, Stack).  Oracle: docstrings in classes.py, property C07."""
from pyvc.contracts import contract
from pyvc.vocab import forall, implies, items_of
from tapescript.errors import ScriptExecutionError
from contracts.common import stack_ok, tape_ok
from collections import deque


@contract('classes.Stack.put')
class Stack_put:
    """'Put an item onto the Stack. Raises ScriptExecutionError if the item is too large or if the
    Stack is full; raises TypeError if the item is not bytes.'  C07: never more than max_items items,
    never an item longer than max_item_size, nothing silently dropped."""
    params = {'self': 'Stack', 'item': 'any'}
    modifies = ('self.deque',)
    # a bytearray is not bytes: mutable items would alias embedder data (second case)
    cases = [('any', lambda mk, base: base), ('bytearray', lambda mk, base: dict(base, item=mk.bytearray('item')))]

    def requires(self, item):
        return stack_ok(self)

    def spec(self, item):
        if type(item) is not bytes:
            raise TypeError
        if len(item) > self.max_item_size:
            raise ScriptExecutionError
        if len(self.deque) >= self.max_items:
            raise ScriptExecutionError
        self.deque.append(item)

    def ensures(old, self, item, result, raised):
        return stack_ok(self)


@contract('classes.Stack.__init__')
class Stack_init:
    """'Initialize an empty Stack.'  C07: the deque's maxlen is the item limit."""
    params = {'self': 'Stack', 'max_items': 'int', 'max_item_size': 'int'}
    modifies = ('self.deque', 'self.max_items', 'self.max_item_size')

    def spec(self, max_items, max_item_size):
        self.max_items = max_items
        self.max_item_size = max_item_size
        self.deque = deque(maxlen=max_items)

    def ensures(old, self, max_items, max_item_size, result, raised):
        return [('maxlen', self.deque.maxlen == self.max_items), ('empty', len(self.deque) == 0)]


@contract('classes.Stack.get')
class Stack_get:
    """'Get the top item of the Stack. Raises IndexError if the deque is empty.'"""
    params = {'self': 'Stack'}
    modifies = ('self.deque',)

    def requires(self):
        return stack_ok(self)

    def spec(self):
        if len(self.deque) == 0:
            raise IndexError
        return self.deque.pop()

    def ensures(old, self, result, raised):
        return stack_ok(self) + [
            ('result.size', implies(raised is None, lambda: len(result) <= self.max_item_size)),
        ]


@contract('classes.Stack.peek')
class Stack_peek:
    """'Returns the item of the stack at the given index without removing it.'  index counts from the
    top; an index outside the stack is an IndexError.  Excluded by precondition (unspecified by the
    docstring, no caller in the package does it): a negative index, and an index in [len, 2*len), which
    CPython's negative indexing wraps around to an item instead of raising."""
    params = {'self': 'Stack', 'index': 'int'}
    modifies = ()

    def requires(self, index):
        return stack_ok(self) + [('index>=0', index >= 0),
                                 ('index-no-wrap', index < len(self.deque) or index == 0)]

    def spec(self, index):
        if index >= len(self.deque):
            raise IndexError
        return self.deque[len(self.deque) - 1 - index]

    def ensures(old, self, index, result, raised):
        return [('result.size', implies(raised is None, lambda: len(result) <= self.max_item_size))]


@contract('classes.Stack.__len__')
class Stack_len:
    params = {'self': 'Stack'}
    modifies = ()

    def requires(self):
        return stack_ok(self)

    def spec(self):
        return len(self.deque)


@contract('classes.Stack.size')
class Stack_size:
    """'Return the number of bytes currently stored on the Stack.'  (ASSUMED: sum over a deque of
    symbolic length; used by no instruction on the pinned tree)"""
    params = {'self': 'Stack'}
    modifies = ()
    trusted = True
    raises = ()
    returns = 'nat'


@contract('classes.Stack.empty')
class Stack_empty:
    params = {'self': 'Stack'}
    modifies = ()

    def requires(self):
        return stack_ok(self)

    def spec(self):
        return len(self.deque) == 0


@contract('classes.Tape.read')
class Tape_read:
    """'Read symbols from the data.'  C07 / C12: the caller must pass size >= 0 (a negative size would
    move the pointer backwards); ScriptExecutionError iff the read passes the end of the script;
    otherwise exactly `size` bytes are returned and the pointer advances by exactly `size`."""
    params = {'self': 'Tape', 'size': 'int', 'move_pointer': 'bool'}
    modifies = ('self.pointer',)

    def requires(self, size, move_pointer):
        return tape_ok(self) + [('size>=0', size >= 0)]

    def spec(self, size, move_pointer):
        if self.pointer + size > len(self.data):
            raise ScriptExecutionError
        data = self.data[self.pointer:self.pointer + size]
        if move_pointer:
            self.pointer = self.pointer + size
        return data

    def ensures(old, self, size, move_pointer, result, raised):
        return tape_ok(self) + [
            ('pointer.monotone', self.pointer >= old.self.pointer),
            ('result.len', implies(raised is None, lambda: len(result) == size)),
        ]


@contract('classes.Tape.move_pointer')
class Tape_move_pointer:
    params = {'self': 'Tape', 'n': 'int'}
    modifies = ('self.pointer',)

    def requires(self, n):
        return tape_ok(self) + [('n>=0', n >= 0)]

    def spec(self, n):
        if self.pointer + n > len(self.data):
            raise ScriptExecutionError
        self.pointer = self.pointer + n
        return self.pointer

    def ensures(old, self, n, result, raised):
        return tape_ok(self) + [('pointer.monotone', self.pointer >= old.self.pointer)]


@contract('classes.Tape.has_terminated')
class Tape_has_terminated:
    params = {'self': 'Tape'}
    modifies = ()

    def requires(self):
        return tape_ok(self)

    def spec(self):
        return self.pointer >= len(self.data)


@contract('classes.Tape.reset_pointer')
class Tape_reset_pointer:
    params = {'self': 'Tape'}
    modifies = ('self.pointer',)

    def requires(self):
        return tape_ok(self)

    def spec(self):
        self.pointer = 0

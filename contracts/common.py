"""Shared predicates of the sidecar (DESIGN.md 2.12) and engine configuration."""
from pyvc.vocab import (forall, implies, all_bytes_items, items_of, str_keys_same, strint_keys_same, dict_same,
                        ghost, AnyError)
from tapescript.errors import ScriptExecutionError


def stack_ok(stack):
    """C07 representation invariant of Stack"""
    return [
        ('stack.count', 0 <= len(stack.deque) and len(stack.deque) <= stack.max_items),
        ('stack.maxlen', stack.deque.maxlen == stack.max_items),
        ('stack.item-size', all_bytes_items(stack.deque, stack.max_item_size)),
    ]


def tape_ok(tape):
    """C07: pointer within the script"""
    return [
        ('tape.pointer', 0 <= tape.pointer and tape.pointer <= len(tape.data)),
    ]


def configure(ip, reg, contract):
    """engine hooks used by every verification"""
    from contracts import _hooks
    _hooks.configure(ip, reg, contract)

"""Contracts for the instructions of tapescript/functions.py.

Oracle: the op reference of docs.md (generated from the docstrings) read with language_spec.md;
operand orders as pinned by the unit tests (DESIGN.md appendix A / B).  Every instruction extends the
common op contract OPC, which is also what the dispatch loop of run_tape assumes about "some table
entry" -- program text never appears in an obligation.

Refinement compares final stack / cache / tape on normal exits; on exceptional exits the spec fixes the
exception class and OPC constrains the state.
"""
from pyvc.contracts import contract
from pyvc.vocab import (forall, implies, ubig, sdecode, pow2, items_of, str_keys_same, strint_keys_same,
                        is_bytes_or_absent, is_bool_or_absent, list_len_at, is_list_or_absent, all_values_refs,
                        take_top, put_all, all_nonempty, AnyError, sha256, shake256, fresh_bytes, ghost)
from tapescript.errors import ScriptExecutionError
from tapescript.functions import (int_to_bytes, bytes_to_int, bytes_to_bool, not_bytes, bytes_to_float,
                                  float_to_bytes, flags)
from contracts.common import stack_ok, tape_ok
import struct


# ------------------------------------------------------------------------------------------------
def clean(cache):
    """C01 ghost predicate: no pending RETURN"""
    return 'returned' not in cache


def sigfields_ok(cache):
    """valid_cache: the embedder's message parts are byte strings"""
    return [(f'sigfield{i}.bytes', is_bytes_or_absent(cache, f'sigfield{i}')) for i in range(1, 9)]


def flags_typed(tape):
    """valid configuration: the integer flags 0..10 hold booleans"""
    return [(f'flag{i}.bool', is_bool_or_absent(tape.flags, i)) for i in range(0, 11)]


def flags_complete(tape):
    """every flag the interpreter knows is present (set_tape_flags puts them there at the start of
    every run_tape)"""
    return [(f'flag[{k!r}].present', k in tape.flags) for k in flags if type(k) in (str, int)]


def plugins_typed(tape):
    return [('plugins.sigext.list', is_list_or_absent(tape.plugins, 'signature_extensions')),
            ('plugins.ctv.list', is_list_or_absent(tape.plugins, 'check_template'))]


def vm_ok(tape, stack, cache):
    return tape_ok(tape) + stack_ok(stack) + [('clean', clean(cache))] + sigfields_ok(cache) + flags_typed(tape) + \
        plugins_typed(tape)


def defs_ok(tape):
    """every definition is a reference to a Tape object (only OP_DEF stores into tape.definitions)"""
    return [('definitions.refs', all_values_refs(tape.definitions))]


def opc_post(old, tape, stack, cache, raised):
    return tape_ok(tape) + stack_ok(stack) + [
        # C07: the read position never moves backwards
        ('pointer.monotone', tape.pointer >= old.tape.pointer),
        # C01: a pending RETURN implies this tape has ended (and only on a normal exit)
        ('returned-protocol', clean(cache) or (raised is None and tape.pointer == len(tape.data))),
        # C08 'when no plugin or contract is installed' -- strict form, obligation only (OP_RETURN itself
        # writes the str key 'returned')
        ('!ks-frame', implies(no_plugins_at_all(tape), str_keys_same(old.cache, cache))),
        # C08, the form every op meets and dispatch may assume: str keys other than 'returned' untouched
        ('ks-frame-but-returned', implies(no_plugins_at_all(tape), ks_same_but_returned(old.cache, cache))),
        ('callstack.monotone', tape.callstack_count >= old.tape.callstack_count),
    ] + sigfields_ok(cache) + flags_typed(tape) + flags_complete_if(old, tape) + defs_ok_if(old, tape)


def flags_complete_if(old, tape):
    """completeness of the flag table is preserved"""
    pre = True
    for label, c in flags_complete(old.tape):
        pre = pre and c
    return [(label, implies(pre, c)) for label, c in flags_complete(tape)]


def defs_ok_if(old, tape):
    return [('definitions.refs', implies(all_values_refs(old.tape.definitions), all_values_refs(tape.definitions)))]


def sigfields_ok_if(c, cache):
    return [(l, implies(c, v)) for l, v in sigfields_ok(cache)]


def no_plugins_at_all(tape):
    return list_len_at(tape.plugins, 'signature_extensions') == 0 and list_len_at(tape.plugins, 'check_template') == 0


def ks_same_but_returned(c0, c1):
    d0 = {**c0}
    d1 = {**c1}
    d0['returned'] = True
    d1['returned'] = True
    return str_keys_same(d0, d1)


@contract('functions.<OPC>')
class OPC:
    """the common op contract"""
    params = {'tape': 'Tape', 'stack': 'Stack', 'cache': 'Cache'}
    modifies = ('tape.pointer', 'tape.callstack_count', 'tape.definitions', 'tape.flags', 'stack.deque', 'cache')
    raises = (BaseException,)

    def requires(tape, stack, cache):
        return vm_ok(tape, stack, cache)

    def ensures(old, tape, stack, cache, result, raised):
        return opc_post(old, tape, stack, cache, raised)


@contract('functions.<DISPATCH>')
class DISPATCH:
    """what the dispatch loop of run_tape must establish before calling `some table entry`: the union of
    the preconditions of all instructions (checked mechanically by the dispatch hook: every clause label
    of every table entry's `requires` occurs here)"""
    extends = 'functions.<OPC>'

    def requires(tape, stack, cache):
        return flags_complete(tape) + defs_ok(tape) + [
            ('plugins.list', is_list_or_absent(tape.plugins, 'signature_extensions')
             and is_list_or_absent(tape.plugins, 'check_template'))]


@contract('functions.<OPF>')
class OPF:
    """OPC plus C09: 'only the documented flag instructions change a flag' -- every instruction except
    OP_SET_FLAG / OP_UNSET_FLAG leaves all str / int flags as they are"""
    extends = 'functions.<OPC>'

    def ensures(old, tape, stack, cache, result, raised):
        return [('flags-frame', strint_keys_same(old.tape.flags, tape.flags))]


OPC_WEAK = 'functions.<OPC>'
OPCK = 'functions.<OPF>'
STACK_ONLY = ('stack.deque',)
TAPE_STACK = ('tape.pointer', 'stack.deque')


def rd_u8(tape):
    return ubig(tape.read(1))


def rd_u16(tape):
    return ubig(tape.read(2))


# ------------------------------------------------------------------------------- constants / push
@contract('functions.OP_FALSE')
class OP_FALSE_c:
    """'Puts a null byte onto the stack.'"""
    extends = OPCK
    modifies = STACK_ONLY

    def spec(tape, stack, cache):
        stack.put(b'\x00')


@contract('functions.OP_TRUE')
class OP_TRUE_c:
    """'Puts a 0xFF byte onto the stack.'"""
    extends = OPCK
    modifies = STACK_ONLY

    def spec(tape, stack, cache):
        stack.put(b'\xff')


@contract('functions.OP_PUSH0')
class OP_PUSH0_c:
    """'Read the next byte from the tape; put it onto the stack.'"""
    extends = OPCK
    modifies = TAPE_STACK

    def spec(tape, stack, cache):
        stack.put(tape.read(1))


@contract('functions.OP_PUSH1')
class OP_PUSH1_c:
    """'Read the next byte from the tape, interpreting as an unsigned int; take that many bytes from
    the tape; put them onto the stack.'"""
    extends = OPCK
    modifies = TAPE_STACK

    def spec(tape, stack, cache):
        size = rd_u8(tape)
        stack.put(tape.read(size))


@contract('functions.OP_PUSH2')
class OP_PUSH2_c:
    """'Read the next 2 bytes from the tape, interpreting as an unsigned int; take that many bytes
    from the tape; put them onto the stack.'"""
    extends = OPCK
    modifies = TAPE_STACK

    def spec(tape, stack, cache):
        size = rd_u16(tape)
        stack.put(tape.read(size))


# ------------------------------------------------------------------------------------------ cache
def pull_inv(items, stack, i, loop_old):
    """`for _ in range(n): items.append(stack.get())` after i iterations"""
    s0 = loop_old.stack.deque
    return stack_ok(stack) + [
        ('items.len', len(items) == i),
        ('stack.len', len(stack.deque) == len(s0) - i),
        ('stack.below', forall(0, len(stack.deque), lambda j: stack.deque[j] == s0[j])),
        ('items.val', forall(0, i, lambda j: items[j] == s0[len(s0) - 1 - j])),
    ]


@contract('functions.OP_POP0')
class OP_POP0_c:
    """'Remove the first item from the stack and put it in the cache at key b'P'.'"""
    extends = OPCK
    modifies = ('stack.deque', 'cache')

    def spec(tape, stack, cache):
        cache[b'P'] = [stack.get()]


@contract('functions.OP_POP1')
class OP_POP1_c:
    """'Read the next byte from the tape, interpreting as an unsigned int; remove that many items
    from the stack and put them in the cache at key b'P'.'  (top item first)"""
    extends = OPCK
    modifies = ('tape.pointer', 'stack.deque', 'cache')

    def spec(tape, stack, cache):
        size = rd_u8(tape)
        cache[b'P'] = take_top(stack, size)

    def inv0(items, stack, i, loop_old):
        return pull_inv(items, stack, i, loop_old)

    def var0(size, i):
        return size - i
    loops = {0: {'inv': inv0, 'variant': var0}}


@contract('functions.OP_SIZE')
class OP_SIZE_c:
    """'Pull a value from the stack; put the size of the value onto the stack as signed int.'"""
    extends = OPCK
    modifies = STACK_ONLY

    def spec(tape, stack, cache):
        stack.put(int_to_bytes(len(stack.get())))


@contract('functions.OP_WRITE_CACHE')
class OP_WRITE_CACHE_c:
    """'Read the next byte from the tape, interpreting as an unsigned int; read that many bytes from
    tape as cache key; read another byte from the tape, interpreting as an int; read that many items
    from the stack and write them to the cache.'  C08: the key is the raw bytes read (never a str)."""
    extends = OPCK
    modifies = ('tape.pointer', 'stack.deque', 'cache')

    def spec(tape, stack, cache):
        size = rd_u8(tape)
        key = tape.read(size)
        n_items = rd_u8(tape)
        cache[key] = take_top(stack, n_items)

    def inv0(items, stack, i, loop_old):
        return pull_inv(items, stack, i, loop_old)

    def var0(n_items, i):
        return n_items - i
    loops = {0: {'inv': inv0, 'variant': var0}}


def push_inv(items, stack, i, loop_old):
    """`for item in items: stack.put(item)` after i iterations"""
    s0 = loop_old.stack.deque
    return stack_ok(stack) + [
        ('i.range', 0 <= i and i <= len(items)),
        ('stack.len', len(stack.deque) == len(s0) + i),
        ('stack.below', forall(0, len(s0), lambda j: stack.deque[j] == s0[j])),
        ('stack.new', forall(len(s0), len(s0) + i, lambda j: stack.deque[j] == items[j - len(s0)])),
        ('stack.new2', forall(0, i, lambda j: items[j] == stack.deque[len(s0) + j])),   # same fact, other trigger
    ]


def cache_items(cache, key):
    """the value(s) at a cache key as a list: 'read those values from the cache'"""
    v = cache[key]
    if type(v) in (list, tuple):
        return v
    return [v]


@contract('functions.OP_READ_CACHE')
class OP_READ_CACHE_c:
    """'... read that many bytes from tape as cache key; read those values from the cache and place
    them onto the stack.'  ScriptExecutionError on a missing key."""
    extends = OPCK
    modifies = TAPE_STACK

    def spec(tape, stack, cache):
        size = rd_u8(tape)
        key = tape.read(size)
        if key not in cache:
            raise ScriptExecutionError
        put_all(stack, cache_items(cache, key))

    def inv0(items, stack, i, loop_old):
        return push_inv(items, stack, i, loop_old)

    def var0(items, i):
        return len(items) - i
    loops = {0: {'inv': inv0, 'variant': var0}}


@contract('functions.OP_READ_CACHE_SIZE')
class OP_READ_CACHE_SIZE_c:
    """'... count how many values exist at that point in the cache and place that int onto the
    stack.'  0 for a missing key."""
    extends = OPCK
    modifies = TAPE_STACK

    def spec(tape, stack, cache):
        size = rd_u8(tape)
        key = tape.read(size)
        if key not in cache:
            stack.put(int_to_bytes(0))
        else:
            stack.put(int_to_bytes(len(cache[key])))


@contract('functions.OP_READ_CACHE_STACK')
class OP_READ_CACHE_STACK_c:
    """'Pull a value from the stack as a cache key; put those values from the cache onto the stack.'"""
    extends = OPCK
    modifies = STACK_ONLY

    def spec(tape, stack, cache):
        key = stack.get()
        if key not in cache:
            raise ScriptExecutionError
        put_all(stack, cache_items(cache, key))

    def inv0(items, stack, i, loop_old):
        return push_inv(items, stack, i, loop_old)

    def var0(items, i):
        return len(items) - i
    loops = {0: {'inv': inv0, 'variant': var0}}


@contract('functions.OP_READ_CACHE_STACK_SIZE')
class OP_READ_CACHE_STACK_SIZE_c:
    extends = OPCK
    modifies = STACK_ONLY

    def spec(tape, stack, cache):
        key = stack.get()
        if key not in cache:
            stack.put(int_to_bytes(0))
        else:
            stack.put(int_to_bytes(len(cache[key])))


# -------------------------------------------------------------------------------- stack shape
@contract('functions.OP_DUP')
class OP_DUP_c:
    """'OP_COPY but with only 1 copy'"""
    extends = OPCK
    modifies = STACK_ONLY

    def spec(tape, stack, cache):
        item = stack.get()
        stack.put(item)
        stack.put(item)


@contract('functions.OP_SWAP2')
class OP_SWAP2_c:
    """'Swap the order of the top two items of the stack.'"""
    extends = OPCK
    modifies = STACK_ONLY

    def spec(tape, stack, cache):
        first = stack.get()
        second = stack.get()
        stack.put(first)
        stack.put(second)


@contract('functions.OP_DEPTH')
class OP_DEPTH_c:
    """'Put the stack item count onto the stack.'"""
    extends = OPCK
    modifies = STACK_ONLY

    def spec(tape, stack, cache):
        stack.put(int_to_bytes(len(stack.deque)))


@contract('functions.OP_SWAP')
class OP_SWAP_c:
    """'Read the next 2 bytes from the tape, interpreting as unsigned ints; swap the stack items at
    those depths.'  depths count from the top; ScriptExecutionError if a depth exceeds the stack."""
    extends = OPCK
    modifies = TAPE_STACK

    def spec(tape, stack, cache):
        a = rd_u8(tape)
        b = rd_u8(tape)
        if a != b:
            n = len(stack.deque)
            if a >= n or b >= n:
                raise ScriptExecutionError
            x = stack.deque[n - 1 - a]
            y = stack.deque[n - 1 - b]
            stack.deque[n - 1 - a] = y
            stack.deque[n - 1 - b] = x


# -------------------------------------------------------------------------------------- bytes
@contract('functions.OP_CONCAT')
class OP_CONCAT_c:
    """'Pull two items from the stack; concatenate them bottom+top; put the result onto the stack.'"""
    extends = OPCK
    modifies = STACK_ONLY

    def spec(tape, stack, cache):
        top = stack.get()
        below = stack.get()
        stack.put(below + top)


@contract('functions.OP_SPLIT')
class OP_SPLIT_c:
    """'Pull a signed int index from the stack; pull an item from the stack; split the item bytes at
    the index; put the first byte sequence onto the stack, then put the second byte sequence onto the
    stack. Raises ScriptExecutionError for invalid index.'  valid: 0 <= index < len(item)."""
    extends = OPCK
    modifies = STACK_ONLY

    def spec(tape, stack, cache):
        index = bytes_to_int(stack.get())
        item = stack.get()
        if index < 0 or index >= len(item):
            raise ScriptExecutionError
        stack.put(item[:index])
        stack.put(item[index:])


@contract('functions.OP_SHA256')
class OP_SHA256_c:
    """'Pull an item from the stack and put its sha256 hash back onto the stack.'"""
    extends = OPCK
    modifies = STACK_ONLY

    def spec(tape, stack, cache):
        stack.put(sha256(stack.get()))


@contract('functions.OP_SHAKE256')
class OP_SHAKE256_c:
    """'Read the next byte from the tape, interpreting as an unsigned int; pull an item from the
    stack; put its shake_256 hash of the spcified length back onto the stack.'"""
    extends = OPCK
    modifies = TAPE_STACK

    def spec(tape, stack, cache):
        size = rd_u8(tape)
        stack.put(shake256(stack.get(), size))


@contract('functions.OP_VERIFY')
class OP_VERIFY_c:
    """'Pull a value from the stack; evaluate it as a bool; and raise a ScriptExecutionError if it is
    False.'  (bool: any bit set)"""
    extends = OPCK
    modifies = STACK_ONLY

    def spec(tape, stack, cache):
        if not bytes_to_bool(stack.get()):
            raise ScriptExecutionError


@contract('functions.OP_NOT')
class OP_NOT_c:
    """'Pulls a value from the stack; performs bitwise NOT operation; puts result onto the stack.'"""
    extends = OPCK
    modifies = STACK_ONLY

    def spec(tape, stack, cache):
        stack.put(not_bytes(stack.get()))


# --------------------------------------------------------------------------------------- integers
@contract('functions.OP_DIV_INT')
class OP_DIV_INT_c:
    """'... read that many bytes from the tape, interpreting as a signed int divisor; pull a value
    from the stack, interpreting as a signed int dividend; divide the dividend by the divisor; put the
    result onto the stack.'  python floor division; ZeroDivisionError on zero."""
    extends = OPCK
    modifies = TAPE_STACK

    def spec(tape, stack, cache):
        size = rd_u8(tape)
        divisor = bytes_to_int(tape.read(size))
        dividend = bytes_to_int(stack.get())
        stack.put(int_to_bytes(dividend // divisor))


@contract('functions.OP_DIV_INTS')
class OP_DIV_INTS_c:
    """'Pull two values from the stack, interpreting as signed ints; divide the first (top) by the
    second; put the result onto the stack.'"""
    extends = OPCK
    modifies = STACK_ONLY

    def spec(tape, stack, cache):
        top = bytes_to_int(stack.get())
        second = bytes_to_int(stack.get())
        stack.put(int_to_bytes(top // second))


@contract('functions.OP_MOD_INT')
class OP_MOD_INT_c:
    extends = OPCK
    modifies = TAPE_STACK

    def spec(tape, stack, cache):
        size = rd_u8(tape)
        divisor = bytes_to_int(tape.read(size))
        dividend = bytes_to_int(stack.get())
        stack.put(int_to_bytes(dividend % divisor))


@contract('functions.OP_MOD_INTS')
class OP_MOD_INTS_c:
    """'perform integer modulus: first (top) % second'"""
    extends = OPCK
    modifies = STACK_ONLY

    def spec(tape, stack, cache):
        top = bytes_to_int(stack.get())
        second = bytes_to_int(stack.get())
        stack.put(int_to_bytes(top % second))


@contract('functions.OP_LESS')
class OP_LESS_c:
    """'Pull two signed ints val1 (top) and val2 from stack; put (v1<v2) onto stack.'"""
    extends = OPCK
    modifies = STACK_ONLY

    def spec(tape, stack, cache):
        v1 = bytes_to_int(stack.get())
        v2 = bytes_to_int(stack.get())
        stack.put(b'\xff' if v1 < v2 else b'\x00')


@contract('functions.OP_LESS_OR_EQUAL')
class OP_LESS_OR_EQUAL_c:
    extends = OPCK
    modifies = STACK_ONLY

    def spec(tape, stack, cache):
        v1 = bytes_to_int(stack.get())
        v2 = bytes_to_int(stack.get())
        stack.put(b'\xff' if v1 <= v2 else b'\x00')


# ================================================================================== batch 2
from pyvc.vocab import repeat, top_items, int_sum, int_prod, int_prod_from, imin, use_lemma, ulittle
from secrets import token_bytes
from time import time
from math import isnan


def opc_alloc_limit(tape, stack, cache):
    """C07: no primitive may build a value whose size is an attacker-chosen number unrelated to the
    configured limits"""
    return 256 * (stack.max_item_size + 256)


OPC.alloc_limit = opc_alloc_limit


@contract('functions.OP_COPY')
class OP_COPY_c:
    """'... pull a value from the stack; place that value and a number of copies corresponding to the
    int from the tape back onto the stack.'  (n + 1 items in total)"""
    extends = OPCK
    modifies = TAPE_STACK

    def spec(tape, stack, cache):
        n = rd_u8(tape)
        item = stack.get()
        put_all(stack, repeat(item, n + 1))

    def inv0(item, n_copies, stack, i, loop_old):
        return push_inv(repeat(item, n_copies + 1), stack, i, loop_old)

    def var0(n_copies, i):
        return n_copies + 1 - i
    loops = {0: {'inv': inv0, 'variant': var0}}


@contract('functions.OP_REVERSE')
class OP_REVERSE_c:
    """'... reverse that number of items from the top of the stack.'  ScriptExecutionError if the stack
    holds fewer."""
    extends = OPCK
    modifies = TAPE_STACK

    def spec(tape, stack, cache):
        count = rd_u8(tape)
        if len(stack.deque) < count:
            raise ScriptExecutionError
        items = take_top(stack, count)
        put_all(stack, items)

    def inv0(res, stack, i, loop_old):
        return pull_inv(res, stack, i, loop_old)

    def var0(count, i):
        return count - i

    def inv1(items, stack, i, loop_old):
        return push_inv(items, stack, i, loop_old)

    def var1(items, i):
        return len(items) - i
    loops = {0: {'inv': inv0, 'variant': var0}, 1: {'inv': inv1, 'variant': var1, 'elem': 'none'}}


@contract('functions.bytes_are_same')
class bytes_are_same_c:
    """'Timing-attack safe bytes comparison.'  The result is plain equality of the two strings.
    Uses the prelude law xor_zero: ulittle(xor(a, b)) == 0 iff a == b, for equal lengths."""
    params = {'b1': 'bytes', 'b2': 'bytes'}
    modifies = ()

    def requires(b1, b2):
        return [('lemma', use_lemma('xor_zero', b1, b2))]

    def spec(b1, b2):
        return b1 == b2


@contract('functions.xor')
class xor_c:
    """'XOR two equal-length byte strings together.'"""
    params = {'b1': 'bytes', 'b2': 'bytes'}
    modifies = ()
    pure = ('xor_f', 'bytes')
    raises = ()

    def inv0(b1, b2, b3, i):
        return [('len', len(b3) == i), ('bytes', forall(0, i, lambda j: b3[j] == b1[j] ^ b2[j]))]

    def var0(b1, i):
        return len(b1) - i
    loops = {0: {'inv': inv0, 'variant': var0}}

    def requires(b1, b2):
        return [('equal-length', len(b1) == len(b2))]

    def ensures(old, b1, b2, result, raised):
        return [('len', len(result) == len(b1)),
                ('bytes', lambda: forall(0, len(b1), lambda j: result[j] == b1[j] ^ b2[j]))]


@contract('functions.or_bytes')
class or_bytes_c:
    params = {'b1': 'bytes', 'b2': 'bytes'}
    modifies = ()
    pure = ('or_f', 'bytes')
    raises = ()

    def inv0(b1, b2, b3, i):
        return [('len', len(b3) == i), ('bytes', forall(0, i, lambda j: b3[j] == b1[j] | b2[j]))]

    def var0(b1, i):
        return len(b1) - i
    loops = {0: {'inv': inv0, 'variant': var0}}

    def requires(b1, b2):
        return [('equal-length', len(b1) == len(b2))]

    def ensures(old, b1, b2, result, raised):
        return [('len', len(result) == len(b1)),
                ('bytes', lambda: forall(0, len(b1), lambda j: result[j] == b1[j] | b2[j]))]


@contract('functions.and_bytes')
class and_bytes_c:
    params = {'b1': 'bytes', 'b2': 'bytes'}
    modifies = ()
    pure = ('and_f', 'bytes')
    raises = ()

    def inv0(b1, b2, b3, i):
        return [('len', len(b3) == i), ('bytes', forall(0, i, lambda j: b3[j] == b1[j] & b2[j]))]

    def var0(b1, i):
        return len(b1) - i
    loops = {0: {'inv': inv0, 'variant': var0}}

    def requires(b1, b2):
        return [('equal-length', len(b1) == len(b2))]

    def ensures(old, b1, b2, result, raised):
        return [('len', len(result) == len(b1)),
                ('bytes', lambda: forall(0, len(b1), lambda j: result[j] == b1[j] & b2[j]))]


@contract('functions.OP_EQUAL')
class OP_EQUAL_c:
    """'Pull 2 items from the stack; compare them; put the bool result onto the stack.'"""
    extends = OPCK
    modifies = STACK_ONLY

    def spec(tape, stack, cache):
        a = stack.get()
        b = stack.get()
        stack.put(b'\xff' if a == b else b'\x00')


@contract('functions.OP_EQUAL_VERIFY')
class OP_EQUAL_VERIFY_c:
    """'Runs OP_EQUAL then OP_VERIFY.'"""
    extends = OPCK
    modifies = STACK_ONLY

    def spec(tape, stack, cache):
        a = stack.get()
        b = stack.get()
        stack.put(b'\xff' if a == b else b'\x00')       # the intermediate result obeys the item limits
        if not bytes_to_bool(stack.get()):
            raise ScriptExecutionError


def pad_inv_a(item1, item2, loop_old):
    """`while len(item1) < len(item2): item1 += b'\\x00'`"""
    a0 = loop_old.item1
    return [('prefix', item1[:len(a0)] == a0),
            ('grows', len(item1) >= len(a0)),
            ('bounded', len(item1) <= len(item2) or len(item1) == len(a0)),
            ('zeros', forall(len(a0), len(item1), lambda j: item1[j] == 0))]


def pad_inv_b(item1, item2, loop_old):
    b0 = loop_old.item2
    return [('prefix', item2[:len(b0)] == b0),
            ('grows', len(item2) >= len(b0)),
            ('bounded', len(item2) <= len(item1) or len(item2) == len(b0)),
            ('zeros', forall(len(b0), len(item2), lambda j: item2[j] == 0))]


def padded(a, n):
    """a right-padded with zero bytes to length n (n >= len(a))"""
    return a + zeros(n - len(a))


def zeros(n):
    return b'\x00' * n


# --------------------------------------------------------------------------------- integer sums
def sum_inv(total, stack, i, loop_old):
    s0 = loop_old.stack.deque
    return stack_ok(stack) + [
        ('stack.len', len(stack.deque) == len(s0) - i),
        ('stack.below', forall(0, len(stack.deque), lambda j: stack.deque[j] == s0[j])),
        ('nonempty', all_nonempty(top_items(loop_old.stack, i))),
    ]


@contract('functions.OP_ADD_INTS')
class OP_ADD_INTS_c:
    """'... pull that many values from the stack, interpreting them as signed ints; add them together;
    put the result back onto the stack.'  Errors in the order the items are pulled: ValueError for an
    empty item, IndexError when the stack runs out."""
    extends = OPCK
    modifies = TAPE_STACK

    def spec(tape, stack, cache):
        size = rd_u8(tape)
        m = imin(size, len(stack.deque))
        items = take_top(stack, m)
        if not all_nonempty(items):
            raise ValueError
        if size > m:
            raise IndexError
        stack.put(int_to_bytes(int_sum(items)))

    def inv0(total, stack, i, loop_old):
        return sum_inv(total, stack, i, loop_old) + [
            ('total', total == int_sum(top_items(loop_old.stack, i)))]

    def var0(size, i):
        return size - i
    loops = {0: {'inv': inv0, 'variant': var0}}


@contract('functions.OP_SUBTRACT_INTS')
class OP_SUBTRACT_INTS_c:
    """'... subtract count-1 of them from the first (top) one; put the result onto the stack.'
    pinned_unspecified: count 0 consumes one item (as count 1)."""
    extends = OPCK
    modifies = TAPE_STACK

    def spec(tape, stack, cache):
        count = rd_u8(tape)
        first = bytes_to_int(stack.get())
        rest = count - 1 if count >= 1 else 0
        m = imin(rest, len(stack.deque))
        items = take_top(stack, m)
        if not all_nonempty(items):
            raise ValueError
        if rest > m:
            raise IndexError
        stack.put(int_to_bytes(first - int_sum(items)))

    def inv0(total, stack, i, loop_old):
        return sum_inv(total, stack, i, loop_old) + [
            ('total', total == loop_old.total - int_sum(top_items(loop_old.stack, i)))]

    def var0(count, i):
        return count - 1 - i
    loops = {0: {'inv': inv0, 'variant': var0}}


@contract('functions.OP_MULT_INTS')
class OP_MULT_INTS_c:
    """'... multiply them together; put the result back onto the stack.'  pinned_unspecified: count 0
    consumes one item."""
    extends = OPCK
    modifies = TAPE_STACK

    def spec(tape, stack, cache):
        count = rd_u8(tape)
        first = bytes_to_int(stack.get())
        rest = count - 1 if count >= 1 else 0
        m = imin(rest, len(stack.deque))
        items = take_top(stack, m)
        if not all_nonempty(items):
            raise ValueError
        if rest > m:
            raise IndexError
        stack.put(int_to_bytes(int_prod_from(first, items)))

    def inv0(total, stack, i, loop_old):
        return sum_inv(total, stack, i, loop_old) + [
            ('lemma', use_lemma('iprodc_step', top_items(loop_old.stack, i), i, loop_old.total)),
            ('total', total == int_prod_from(loop_old.total, top_items(loop_old.stack, i)))]

    def var0(count, i):
        return count - 1 - i
    loops = {0: {'inv': inv0, 'variant': var0}}


# ------------------------------------------------------------------------------------------ NOP
@contract('functions.NOP')
class NOP_c:
    """C20: 'Read the next byte from the tape, interpreting as a signed int and pull that many values
    from the stack. Does nothing with the values.  Raises ScriptExecutionError if count is negative.'
    IndexError if the count exceeds the stack; no other effect."""
    extends = OPCK
    modifies = TAPE_STACK

    def spec(tape, stack, cache):
        count = sdecode(tape.read(1))
        if count < 0:
            raise ScriptExecutionError
        take_top(stack, count)

    def inv0(stack, i, loop_old):
        s0 = loop_old.stack.deque
        return stack_ok(stack) + [
            ('stack.len', len(stack.deque) == len(s0) - i),
            ('stack.below', forall(0, len(stack.deque), lambda j: stack.deque[j] == s0[j]))]

    def var0(count, i):
        return count - i
    loops = {0: {'inv': inv0, 'variant': var0}}


# ----------------------------------------------------------------------------------------- random
@contract('functions.OP_RANDOM')
class OP_RANDOM_c:
    """language_spec: '[int] OP_RANDOM - pulls an int from the stack and puts a random byte string
    that long onto the stack'.  ValueError for a negative size; C07: the size must be checked against
    the item limit before anything of that size is allocated."""
    extends = OPCK
    modifies = STACK_ONLY

    def spec(tape, stack, cache):
        size = bytes_to_int(stack.get())
        if size > stack.max_item_size and size >= 0:
            raise ScriptExecutionError
        stack.put(token_bytes(size))


# ------------------------------------------------------------------------------------------- time
@contract('functions.OP_CHECK_TIMESTAMP')
class OP_CHECK_TIMESTAMP_c:
    """C16: 'with execution timestamp t, verifier clock now and the slack thresholds, OP_CHECK_TIMESTAMP
    with constraint c yields true exactly when t >= c and (the threshold is <= 0 or t - now <
    ts_threshold)'.  c is the item read as an unsigned int; ScriptExecutionError for an empty item, a
    missing / non-int cache timestamp, a missing / non-int threshold."""
    extends = OPCK
    modifies = STACK_ONLY

    def spec(tape, stack, cache):
        item = stack.get()
        if len(item) == 0:
            raise ScriptExecutionError
        c = ubig(item)
        if 'timestamp' not in cache or type(cache['timestamp']) is not int:
            raise ScriptExecutionError
        if 'ts_threshold' not in tape.flags or type(tape.flags['ts_threshold']) is not int:
            raise ScriptExecutionError
        t = cache['timestamp']
        thr = tape.flags['ts_threshold']
        now = int(time())
        ok = t >= c and (thr <= 0 or t - now < thr)
        stack.put(b'\xff' if ok else b'\x00')


@contract('functions.OP_CHECK_TIMESTAMP_VERIFY')
class OP_CHECK_TIMESTAMP_VERIFY_c:
    """C16: 'the _VERIFY forms raise instead of yielding false'"""
    extends = OPCK
    modifies = STACK_ONLY

    def spec(tape, stack, cache):
        item = stack.get()
        if len(item) == 0:
            raise ScriptExecutionError
        c = ubig(item)
        if 'timestamp' not in cache or type(cache['timestamp']) is not int:
            raise ScriptExecutionError
        if 'ts_threshold' not in tape.flags or type(tape.flags['ts_threshold']) is not int:
            raise ScriptExecutionError
        t = cache['timestamp']
        thr = tape.flags['ts_threshold']
        now = int(time())
        if not (t >= c and (thr <= 0 or t - now < thr)):
            raise ScriptExecutionError


@contract('functions.OP_CHECK_EPOCH')
class OP_CHECK_EPOCH_c:
    """C16: 'OP_CHECK_EPOCH [yields true] exactly when c - now < epoch_threshold'.
    ScriptExecutionError for an empty item or a missing / non-int / negative threshold."""
    extends = OPCK
    modifies = STACK_ONLY

    def spec(tape, stack, cache):
        item = stack.get()
        if len(item) == 0:
            raise ScriptExecutionError
        c = ubig(item)
        if 'epoch_threshold' not in tape.flags or type(tape.flags['epoch_threshold']) is not int:
            raise ScriptExecutionError
        thr = tape.flags['epoch_threshold']
        if thr < 0:
            raise ScriptExecutionError
        now = int(time())
        stack.put(b'\xff' if c - now < thr else b'\x00')


@contract('functions.OP_CHECK_EPOCH_VERIFY')
class OP_CHECK_EPOCH_VERIFY_c:
    extends = OPCK
    modifies = STACK_ONLY

    def spec(tape, stack, cache):
        item = stack.get()
        if len(item) == 0:
            raise ScriptExecutionError
        c = ubig(item)
        if 'epoch_threshold' not in tape.flags or type(tape.flags['epoch_threshold']) is not int:
            raise ScriptExecutionError
        thr = tape.flags['epoch_threshold']
        if thr < 0:
            raise ScriptExecutionError
        now = int(time())
        if not (c - now < thr):
            raise ScriptExecutionError

"""Contracts, part 3: Ed25519 / adapter instructions, bitwise, strings, floats, embedder ops, flags,
control flow, run_tape / run_script / run_auth_scripts."""
from pyvc.contracts import contract
from pyvc.vocab import (forall, implies, ubig, sdecode, take_top, put_all, AnyError, sha256, sha512, zeros, use_lemma,
                        is_list_or_absent, list_len_at, same, dict_same, str_keys_same, strint_keys_same,
                        all_values_refs, imin, top_items, is_bool_or_absent, concrete_len, unspecified)
import nacl.exceptions
from tapescript.errors import ScriptExecutionError
from tapescript.classes import Tape, Stack
from tapescript.functions import (int_to_bytes, bytes_to_int, bytes_to_bool, bytes_to_float, float_to_bytes,
                                  run_sig_extensions, run_plugins, clamp_scalar, derive_key_from_seed,
                                  derive_point_from_scalar, aggregate_points, aggregate_scalars, H_big, H_small,
                                  bytes_are_same, xor, or_bytes, and_bytes, run_tape, set_tape_flags, flags,
                                  flags_to_set)
from contracts.common import stack_ok, tape_ok
from contracts.functions_ops import (OPCK, OPC_WEAK, STACK_ONLY, TAPE_STACK, vm_ok, clean, sigfields_ok, rd_u8,
                                     rd_u16, pull_inv, push_inv, flags_typed, no_plugins_at_all, ks_same_but_returned)
from contracts.functions_ops2 import (flag_on, spec_check_sig, spec_verify, plugins_ok, SIG_EXT, via_stack)
from math import isnan
import struct
import nacl.bindings

def ensures_clean(old, tape, stack, cache, result, raised):
    """a data instruction never leaves a RETURN pending"""
    return [('clean', clean(cache))]


ALL = ('tape.pointer', 'tape.callstack_count', 'tape.definitions', 'tape.flags', 'stack.deque', 'cache')


# ---------------------------------------------------------------------------- Ed25519 arithmetic
@contract('functions.OP_DERIVE_SCALAR')
class OP_DERIVE_SCALAR_c:
    """'Takes a value seed from stack; derives an ed25519 key scalar from the seed; puts the key scalar
    onto the stack. Sets cache key b'x' to x if allowed by tape.flags.'  (flag 1)"""
    extends = OPCK
    modifies = ('stack.deque', 'cache')

    def spec(tape, stack, cache):
        x = derive_key_from_seed(stack.get())
        if flag_on(tape, 1):
            cache[b'x'] = x
        stack.put(x)


@contract('functions.OP_CLAMP_SCALAR')
class OP_CLAMP_SCALAR_c:
    """'Reads a byte from the tape, interpreting as a bool is_key; takes a value from the stack; clamps
    it to an ed25519 scalar; puts the clamped ed25519 scalar onto the stack. Raises ValueError for
    invalid value.'"""
    extends = OPCK
    modifies = TAPE_STACK

    def spec(tape, stack, cache):
        is_key = bytes_to_bool(tape.read(1))
        stack.put(clamp_scalar(stack.get(), is_key))


@contract('functions.OP_DERIVE_POINT')
class OP_DERIVE_POINT_c:
    """'... derives a curve point X from scalar value x; puts X onto stack; sets cache key b'X' to X
    if allowed by tape.flags'  (flag 2)"""
    extends = OPCK
    modifies = ('stack.deque', 'cache')

    def spec(tape, stack, cache):
        X = derive_point_from_scalar(stack.get())
        if flag_on(tape, 2):
            cache[b'X'] = X
        stack.put(X)


def inv_stack(stack):
    return stack_ok(stack)


@contract('functions.aggregate_points')
class aggregate_points_c:
    """'Aggregate points on the Ed25519 curve.'  Every point must be a valid ed25519 point (ValueError);
    the result is the left-to-right libsodium sum.  The spec covers lists of concrete length (verified
    for lengths 1..3, which is what the package passes apart from OP_ADD_POINTS); for a list of
    symbolic length only the result size is stated."""
    params = {'points': 'list[bytes]'}
    modifies = ()
    raises = (TypeError, ValueError, IndexError, nacl.exceptions.RuntimeError)
    returns = 'bytes32'
    cases = [('len1', lambda mk, base: {'points': (mk.bytes('p0'),)}),
             ('len2', lambda mk, base: {'points': (mk.bytes('p0'), mk.bytes('p1'))}),
             ('len3', lambda mk, base: {'points': [mk.bytes('p0'), mk.bytes('p1'), mk.bytes('p2')]})]

    def spec(points):
        if not concrete_len(points):
            unspecified()
        for pt in points:
            if not nacl.bindings.crypto_core_ed25519_is_valid_point(pt):
                raise ValueError
        total = points[0]
        for i in range(1, len(points)):
            total = nacl.bindings.crypto_core_ed25519_add(total, points[i])
        return total


@contract('functions.aggregate_scalars')
class aggregate_scalars_c:
    """'Aggregate scalars on the Ed25519 curve.'  left-to-right libsodium scalar sum"""
    params = {'scalars': 'list[bytes]'}
    modifies = ()
    raises = (TypeError, IndexError)
    returns = 'bytes32'
    cases = [('len1', lambda mk, base: {'scalars': (mk.bytes('p0'),)}),
             ('len2', lambda mk, base: {'scalars': (mk.bytes('p0'), mk.bytes('p1'))}),
             ('len3', lambda mk, base: {'scalars': [mk.bytes('p0'), mk.bytes('p1'), mk.bytes('p2')]})]

    def spec(scalars):
        if not concrete_len(scalars):
            unspecified()
        total = scalars[0]
        for i in range(1, len(scalars)):
            total = nacl.bindings.crypto_core_ed25519_scalar_add(total, scalars[i])
        return total


@contract('functions.OP_ADD_POINTS')
class OP_ADD_POINTS_c:
    ensures = ensures_clean
    """C07 / C08 / C09 invariants only (common op contract); the sum itself is libsodium's."""
    extends = OPCK
    modifies = TAPE_STACK

    def inv0(points, stack, i, loop_old):
        return stack_ok(stack) + [('stack.shrinks', len(stack.deque) <= len(loop_old.stack.deque))]

    def var0(count, i):
        return count - i

    def inv1(stack):
        return stack_ok(stack)
    loops = {0: {'inv': inv0, 'variant': var0}, 1: {'inv': inv1}}


@contract('functions.OP_ADD_SCALARS')
class OP_ADD_SCALARS_c:
    ensures = ensures_clean
    extends = OPCK
    modifies = TAPE_STACK

    def inv0(scalars, stack, i, loop_old):
        return stack_ok(stack)

    def var0(count, i):
        return count - i
    loops = {0: {'inv': inv0, 'variant': var0}}


@contract('functions.OP_SUBTRACT_SCALARS')
class OP_SUBTRACT_SCALARS_c:
    ensures = ensures_clean
    extends = OPCK
    modifies = TAPE_STACK

    def inv0(stack, total):
        return stack_ok(stack) + [('total.len', len(total) <= stack.max_item_size)]

    def var0(count, i):
        return count - 1 - i
    loops = {0: {'inv': inv0, 'variant': var0}}


@contract('functions.OP_SUBTRACT_POINTS')
class OP_SUBTRACT_POINTS_c:
    ensures = ensures_clean
    extends = OPCK
    modifies = TAPE_STACK

    def inv0(stack, total):
        return stack_ok(stack) + [('total.len', len(total) <= stack.max_item_size)]

    def var0(count, i):
        return count - 1 - i
    loops = {0: {'inv': inv0, 'variant': var0}}


# --------------------------------------------------------------------------------------- adapters
def base(s):
    return nacl.bindings.crypto_scalarmult_ed25519_base_noclamp(s)


def pt_add(a, b):
    """aggregate_points((a, b)): both must be valid points (ValueError), then libsodium add"""
    if not nacl.bindings.crypto_core_ed25519_is_valid_point(a):
        raise ValueError
    if not nacl.bindings.crypto_core_ed25519_is_valid_point(b):
        raise ValueError
    return nacl.bindings.crypto_core_ed25519_add(a, b)


def sc_add(a, b):
    return nacl.bindings.crypto_core_ed25519_scalar_add(a, b)


def sc_mul(a, b):
    return nacl.bindings.crypto_core_ed25519_scalar_mul(a, b)


def h_small(*parts):
    return nacl.bindings.crypto_core_ed25519_scalar_reduce(sha512(b''.join(parts)))


@contract('functions.OP_MAKE_ADAPTER_SIG_PUBLIC')
class OP_MAKE_ADAPTER_SIG_PUBLIC_c:
    """C17: 'the adapter (R, sa) made for T': R = r*G, sa = r + H(R+T || X || m) * x with x the
    signer's key scalar, r the deterministic nonce.  Stack: T (top), m, seed -> R, sa.  Cache keys under
    flags 3 (r), 4 (R), 6 (T), 8 (sa)."""
    extends = OPCK
    modifies = ('stack.deque', 'cache')

    def spec(tape, stack, cache):
        T = stack.get()
        m = stack.get()
        seed = stack.get()
        x = derive_key_from_seed(seed)
        X = base(x)
        nonce = sha512(seed)[32:]
        r = clamp_scalar(h_small(sha512(nonce + m)), False)
        R = base(r)
        RT = pt_add(R, T)
        ca = clamp_scalar(h_small(RT, X, m), False)
        sa = sc_add(r, sc_mul(ca, x))
        if flag_on(tape, 3):
            cache[b'r'] = r
        if flag_on(tape, 4):
            cache[b'R'] = R
        if flag_on(tape, 6):
            cache[b'T'] = T
        if flag_on(tape, 8):
            cache[b'sa'] = sa
        stack.put(R)
        stack.put(sa)


@contract('functions.OP_MAKE_ADAPTER_SIG_PRIVATE')
class OP_MAKE_ADAPTER_SIG_PRIVATE_c:
    ensures = ensures_clean
    """common op contract only.  (C17: its output is not a valid adapter -- upstream issue 18, known
    finding D16; the functional statement lives in the C17 lemma.)"""
    extends = OPCK
    modifies = ('stack.deque', 'cache')


@contract('functions.OP_CHECK_ADAPTER_SIG')
class OP_CHECK_ADAPTER_SIG_c:
    """C17: 'passes the adapter check for (signer key, T, message)': sa*G == R + H(R+T || X || m) * X.
    Stack: X (top), T, m, R, sa."""
    extends = OPCK
    modifies = STACK_ONLY

    def spec(tape, stack, cache):
        X = stack.get()
        T = stack.get()
        m = stack.get()
        R = stack.get()
        sa = stack.get()
        sa_G = base(sa)
        RT = pt_add(R, T)
        ca = clamp_scalar(h_small(RT, X, m), False)
        caX = nacl.bindings.crypto_scalarmult_ed25519_noclamp(ca, X)
        RcaX = pt_add(R, caX)
        stack.put(b'\xff' if sa_G == RcaX else b'\x00')


@contract('functions.OP_DECRYPT_ADAPTER_SIG')
class OP_DECRYPT_ADAPTER_SIG_c:
    """C17: 'decrypting it with t yields (R+T, sa+t)'.  Stack: t (top), R, sa -> RT, s.  Cache under
    flags 7 (RT), 9 (s)."""
    extends = OPCK
    modifies = ('stack.deque', 'cache')

    def spec(tape, stack, cache):
        t = clamp_scalar(stack.get(), False)
        R = stack.get()
        sa = stack.get()
        T = base(t)
        RT = pt_add(R, T)
        s = sc_add(sa, t)
        if flag_on(tape, 7):
            cache[b'RT'] = RT
        if flag_on(tape, 9):
            cache[b's'] = s
        stack.put(RT)
        stack.put(s)


# ---------------------------------------------------------------------------------------- bitwise
def padded(a, n):
    """a right-padded with zero bytes to length n"""
    return a + zeros(n - len(a))


def pad_inv1(item1, item2, loop_old):
    a0 = loop_old.item1
    k = len(item1) - len(a0)
    return [('lemma', use_lemma('zeros_step', k)),
            ('grows', k >= 0),
            ('bounded', len(item1) <= len(item2) or k == 0),
            ('shape', item1 == a0 + zeros(k))]


def pad_inv2(item1, item2, loop_old):
    b0 = loop_old.item2
    k = len(item2) - len(b0)
    return [('lemma', use_lemma('zeros_step', k)),
            ('grows', k >= 0),
            ('bounded', len(item2) <= len(item1) or k == 0),
            ('shape', item2 == b0 + zeros(k))]


def imax(a, b):
    return a if a > b else b


@contract('functions.OP_XOR')
class OP_XOR_c:
    """'Takes two values from the stack; XORs them together; puts result onto the stack. Pads the
    shorter length value with x00.'"""
    extends = OPCK
    modifies = STACK_ONLY

    def spec(tape, stack, cache):
        a = stack.get()
        b = stack.get()
        n = imax(len(a), len(b))
        stack.put(xor(padded(a, n), padded(b, n)))

    def var0(item1, item2):
        return len(item2) - len(item1)

    def var1(item1, item2):
        return len(item1) - len(item2)
    loops = {0: {'inv': pad_inv1, 'variant': var0}, 1: {'inv': pad_inv2, 'variant': var1}}


@contract('functions.OP_OR')
class OP_OR_c:
    extends = OPCK
    modifies = STACK_ONLY

    def spec(tape, stack, cache):
        a = stack.get()
        b = stack.get()
        n = imax(len(a), len(b))
        stack.put(or_bytes(padded(a, n), padded(b, n)))

    def var0(item1, item2):
        return len(item2) - len(item1)

    def var1(item1, item2):
        return len(item1) - len(item2)
    loops = {0: {'inv': pad_inv1, 'variant': var0}, 1: {'inv': pad_inv2, 'variant': var1}}


@contract('functions.OP_AND')
class OP_AND_c:
    extends = OPCK
    modifies = STACK_ONLY

    def spec(tape, stack, cache):
        a = stack.get()
        b = stack.get()
        n = imax(len(a), len(b))
        stack.put(and_bytes(padded(a, n), padded(b, n)))

    def var0(item1, item2):
        return len(item2) - len(item1)

    def var1(item1, item2):
        return len(item1) - len(item2)
    loops = {0: {'inv': pad_inv1, 'variant': var0}, 1: {'inv': pad_inv2, 'variant': var1}}


# ---------------------------------------------------------------------------------------- strings
@contract('functions.OP_CONCAT_STR')
class OP_CONCAT_STR_c:
    """'Pull two items from the stack, interpreting as UTF-8 strings; concatenate them; put the result
    onto the stack.'  order pinned by the unit test: bottom + top.  (UTF-8 decoding uninterpreted)"""
    extends = OPCK
    modifies = STACK_ONLY

    def spec(tape, stack, cache):
        top = str(stack.get(), 'utf-8')
        below = str(stack.get(), 'utf-8')
        stack.put(bytes(below + top, 'utf-8'))


@contract('functions.OP_SPLIT_STR')
class OP_SPLIT_STR_c:
    extends = OPCK
    modifies = STACK_ONLY

    def spec(tape, stack, cache):
        index = bytes_to_int(stack.get())
        item = str(stack.get(), 'utf-8')
        if index < 0 or index >= len(item):
            raise ScriptExecutionError
        stack.put(bytes(item[:index], 'utf-8'))
        stack.put(bytes(item[index:], 'utf-8'))


# ----------------------------------------------------------------------------------------- floats
def get_f32(stack, exc):
    item = stack.get()
    if len(item) != 4:
        raise exc
    return struct.unpack('!f', item)[0]


@contract('functions.OP_ADD_FLOATS')
class OP_ADD_FLOATS_c:
    ensures = ensures_clean
    """structural only (A-F32): common op contract"""
    extends = OPCK
    modifies = TAPE_STACK

    def inv0(stack):
        return stack_ok(stack)

    def var0(count, i):
        return count - i
    loops = {0: {'inv': inv0, 'variant': var0}}


@contract('functions.OP_SUBTRACT_FLOATS')
class OP_SUBTRACT_FLOATS_c:
    ensures = ensures_clean
    extends = OPCK
    modifies = TAPE_STACK

    def inv0(stack):
        return stack_ok(stack)

    def var0(count, i):
        return count - 1 - i
    loops = {0: {'inv': inv0, 'variant': var0}}


@contract('functions.OP_DIV_FLOAT')
class OP_DIV_FLOAT_c:
    """'Read the next 4 bytes from the tape, interpreting as a float divisor; pull a value from the
    stack, interpreting as a float dividend; divide the dividend by the divisor; put the result onto
    the stack.'  TypeError for a malformed item, ValueError for NaN."""
    extends = OPCK
    modifies = TAPE_STACK

    def spec(tape, stack, cache):
        divisor = struct.unpack('!f', tape.read(4))[0]
        dividend = get_f32(stack, TypeError)
        result = dividend / divisor
        if isnan(result):
            raise ValueError
        stack.put(struct.pack('!f', result))


@contract('functions.OP_DIV_FLOATS')
class OP_DIV_FLOATS_c:
    """top / second (operand order pinned by the unit test; both documents say second / top)"""
    extends = OPCK
    modifies = STACK_ONLY

    def spec(tape, stack, cache):
        item = stack.get()
        if len(item) != 4:
            raise TypeError
        top = struct.unpack('!f', item)[0]
        item2 = stack.get()
        if len(item2) != 4:
            raise TypeError
        second = struct.unpack('!f', item2)[0]
        result = top / second
        if isnan(result):
            raise ValueError
        stack.put(struct.pack('!f', result))


@contract('functions.OP_MOD_FLOAT')
class OP_MOD_FLOAT_c:
    extends = OPCK
    modifies = TAPE_STACK

    def spec(tape, stack, cache):
        divisor = struct.unpack('!f', tape.read(4))[0]
        dividend = get_f32(stack, TypeError)
        result = dividend % divisor
        if isnan(result):
            raise ValueError
        stack.put(struct.pack('!f', result))


@contract('functions.OP_MOD_FLOATS')
class OP_MOD_FLOATS_c:
    """'second % first (top)'"""
    extends = OPCK
    modifies = STACK_ONLY

    def spec(tape, stack, cache):
        divisor = get_f32(stack, TypeError)
        dividend = get_f32(stack, TypeError)
        result = dividend % divisor
        if isnan(result):
            raise ValueError
        stack.put(struct.pack('!f', result))


@contract('functions.OP_FLOAT_LESS')
class OP_FLOAT_LESS_c:
    """'Pull two floats val1 (top) and val2 from stack; put (v1<v2) onto stack.'"""
    extends = OPCK
    modifies = STACK_ONLY

    def spec(tape, stack, cache):
        v1 = bytes_to_float(stack.get())
        v2 = bytes_to_float(stack.get())
        stack.put(b'\xff' if v1 < v2 else b'\x00')


@contract('functions.OP_FLOAT_LESS_OR_EQUAL')
class OP_FLOAT_LESS_OR_EQUAL_c:
    extends = OPCK
    modifies = STACK_ONLY

    def spec(tape, stack, cache):
        v1 = bytes_to_float(stack.get())
        v2 = bytes_to_float(stack.get())
        stack.put(b'\xff' if v1 <= v2 else b'\x00')


@contract('functions.OP_INT_TO_FLOAT')
class OP_INT_TO_FLOAT_c:
    extends = OPCK
    modifies = STACK_ONLY

    def spec(tape, stack, cache):
        value = bytes_to_int(stack.get())
        stack.put(float_to_bytes(1.0 * value))


@contract('functions.OP_FLOAT_TO_INT')
class OP_FLOAT_TO_INT_c:
    extends = OPCK
    modifies = STACK_ONLY

    def spec(tape, stack, cache):
        value = bytes_to_float(stack.get())
        stack.put(int_to_bytes(int(value)))


# --------------------------------------------------------------------------------- embedder ops
@contract('functions.OP_GET_VALUE')
class OP_GET_VALUE_c:
    ensures = ensures_clean
    """'Read one byte from the tape as uint size; read size bytes from the tape, interpreting as utf-8
    string; put the read-only cache value(s) at that cache key onto the stack, serialized as bytes.'
    C08: the only reader of str keys, and it never writes."""
    extends = OPCK
    modifies = TAPE_STACK

    def inv0(stack):
        return stack_ok(stack)
    loops = {0: {'inv': inv0}}


@contract('functions.OP_INVOKE')
class OP_INVOKE_c:
    ensures = ensures_clean
    """common op contract; the contract object is an opaque embedder call (A-EMBED)"""
    extends = OPCK
    modifies = ('stack.deque', 'cache')

    def inv0(stack):
        return stack_ok(stack)

    def var0(argcount, i):
        return argcount - i

    def inv1(stack):
        return stack_ok(stack)
    loops = {0: {'inv': inv0, 'variant': var0}, 1: {'inv': inv1}}


@contract('functions.OP_CHECK_TRANSFER')
class OP_CHECK_TRANSFER_c:
    """ASSUMED to meet the common op contract (embedder-heavy instruction: the executor needs several
    minutes and hundreds of paths over opaque contract-object results); bounded stand-in:
    props/bounded.py c07_check_transfer (native monitor of the common op contract)"""
    ensures = ensures_clean
    extends = OPCK
    modifies = STACK_ONLY

    def inv_(stack):
        return stack_ok(stack)

    def var_(count, i):
        return count - i
    loops = {0: {'inv': inv_, 'variant': var_}, 1: {'inv': inv_, 'variant': var_}, 2: {'inv': inv_, 'variant': var_}}


def ctv_inv(tape, stack, cache, old):
    """loop over the eight sigfield numbers (treated by invariant: `abstract`)"""
    return stack_ok(stack) + sigfields_ok(cache) + [
        ('clean', clean(cache)),
        ('ks', implies(no_plugins_at_all(old.tape), str_keys_same(old.cache, cache))),
    ]


def ctv_var(i):
    return 8 - i


@contract('functions.OP_CHECK_TEMPLATE')
class OP_CHECK_TEMPLATE_c:
    """common op contract (limits, frames, RETURN protocol); what the check_template plugins decide is
    the embedder's business (A-PLUGIN)"""
    ensures = ensures_clean
    extends = OPCK
    modifies = ('tape.pointer', 'stack.deque', 'cache')
    loops = {0: {'inv': ctv_inv, 'variant': ctv_var, 'abstract': True}}

    def requires(tape, stack, cache):
        return plugins_ok(tape, SIG_EXT) + plugins_ok(tape, 'check_template')


@contract('functions.OP_CHECK_TEMPLATE_VERIFY')
class OP_CHECK_TEMPLATE_VERIFY_c:
    ensures = ensures_clean
    extends = OPCK
    modifies = ('tape.pointer', 'stack.deque', 'cache')

    def requires(tape, stack, cache):
        return plugins_ok(tape, SIG_EXT) + plugins_ok(tape, 'check_template')


@contract('functions.OP_CHECK_MULTISIG')
class OP_CHECK_MULTISIG_c:
    ensures = ensures_clean
    """common op contract (limits, frames, RETURN protocol) for ALL (m, n) by loop invariants; the exact
    verdict for small (m, n) is the C03 lemma (props/lemmas_multisig.py)"""
    extends = OPCK
    modifies = ('tape.pointer', 'stack.deque', 'cache')

    def inv_pull(stack):
        return stack_ok(stack)

    def var_n(n, i):
        return n - i

    def var_m(m, i):
        return m - i

    def inv_outer(stack, cache, subtape, old):
        return stack_ok(stack) + sigfields_ok(cache) + [
            ('clean', clean(cache)),
            ('ks', implies(no_plugins_at_all(old.tape), ks_same_but_returned(old.cache, cache))),
            ('subtape', len(subtape.data) == 1 and 0 <= subtape.pointer and subtape.pointer <= 1),
            ('stack.room', True)]
    loops = {0: {'inv': inv_pull, 'variant': var_n}, 1: {'inv': inv_pull, 'variant': var_m},
             2: {'inv': inv_outer, 'modifies': ('stack.deque', 'cache', 'subtape.pointer')},
             3: {'inv': inv_outer, 'modifies': ('stack.deque', 'cache', 'subtape.pointer')}}


@contract('functions.OP_CHECK_MULTISIG_VERIFY')
class OP_CHECK_MULTISIG_VERIFY_c:
    ensures = ensures_clean
    extends = OPCK
    modifies = ('tape.pointer', 'stack.deque', 'cache')

    def requires(tape, stack, cache):
        return plugins_ok(tape, SIG_EXT)


# ------------------------------------------------------------------------------------------ flags
@contract('functions.OP_SET_FLAG')
class OP_SET_FLAG_c:
    """language_spec: 'OP_SET_FLAG number - sets the tape flag `number` to the default value';
    docs.md: 'Integer flags 0-255 can be set or unset by ...'.  The operand (size, bytes) is the flag
    number as an unsigned int; ScriptExecutionError for an unrecognised flag.  C09: changes exactly the
    integer flag it names."""
    extends = OPC_WEAK
    modifies = ('tape.pointer', 'tape.flags')

    def spec(tape, stack, cache):
        size = rd_u8(tape)
        n = ubig(tape.read(size))
        if n not in flags:
            raise ScriptExecutionError
        tape.flags[n] = flags[n]


@contract('functions.OP_UNSET_FLAG')
class OP_UNSET_FLAG_c:
    """language_spec: 'OP_UNSET_FLAG number - unsets the tape flag `number`'"""
    extends = OPC_WEAK
    modifies = ('tape.pointer', 'tape.flags')

    def spec(tape, stack, cache):
        size = rd_u8(tape)
        n = ubig(tape.read(size))
        if n in tape.flags:
            del tape.flags[n]

"""Contracts for the codecs and byte helpers of tapescript/functions.py.

Oracle: property C10 (integer / float encodings), docstrings.  `sdecode` is the two's-complement
value of a non-empty big-endian byte string: u - 2**(8*len) if u >= 2**(8*len-1) else u.
"""
from pyvc.contracts import contract
from pyvc.vocab import forall, implies, ubig, ulittle, sdecode, pow2, use_lemma
from tapescript.errors import ScriptExecutionError
import struct


@contract('functions.bytes_to_int')
class bytes_to_int_c:
    """C10: 'decoding is total on every non-empty byte string'; TypeError for non-bytes, ValueError for
    the empty string; the value is the two's-complement reading."""
    params = {'number': 'any'}
    modifies = ()
    pure = None

    def spec(number):
        if type(number) is not bytes:
            raise TypeError
        if len(number) == 0:
            raise ValueError
        return sdecode(number)


@contract('functions.int_to_bytes')
class int_to_bytes_c:
    """C10: for every integer n the encoding is a non-empty big-endian two's-complement string whose
    top bit matches the sign of n and which decodes to n; never raises for an int.  (The encoding may
    carry one redundant leading byte: floor(log2(n)) is only assumed never to be LOW, A-LOG2.)"""
    params = {'number': 'any'}
    modifies = ()
    pure = ('enc', 'bytes')

    def ensures(old, number, result, raised):
        return [
            ('type-error', (raised is TypeError) == (type(number) is not int)),
            ('total', implies(type(number) is int, lambda: raised is None)),
            ('nonempty', implies(raised is None, lambda: len(result) >= 1)),
            ('decodes', implies(raised is None, lambda: sdecode(result) == number)),
            ('sign-bit', implies(raised is None,
                                 lambda: (ubig(result) >= pow2(8 * len(result) - 1)) == (number < 0))),
        ]


@contract('functions.uint_to_bytes')
class uint_to_bytes_c:
    """'Convert from arbitrarily large unsigned int to bytes' (deprecated helper).  For n >= 0 the
    result is non-empty and its unsigned big-endian value is n."""
    params = {'number': 'nat'}
    modifies = ()
    pure = ('uenc', 'bytes')

    def ensures(old, number, result, raised):
        return [
            ('total', raised is None),
            ('nonempty', implies(raised is None, lambda: len(result) >= 1)),
            ('decodes', implies(raised is None, lambda: ubig(result) == number)),
        ]


@contract('functions.bytes_to_bool')
class bytes_to_bool_c:
    """'Return True if any bits set, else False.'"""
    params = {'val': 'bytes'}
    modifies = ()

    def spec(val):
        return ubig(val) > 0


@contract('functions.bytes_to_float')
class bytes_to_float_c:
    """type / length checks proved; the conversion itself is struct's (A-F32)."""
    params = {'number': 'any'}
    modifies = ()

    def spec(number):
        if type(number) is not bytes:
            raise TypeError
        if len(number) != 4:
            raise ValueError
        return struct.unpack('!f', number)[0]


@contract('functions.float_to_bytes')
class float_to_bytes_c:
    params = {'number': 'any'}
    modifies = ()

    def spec(number):
        if type(number) is not float:
            raise TypeError
        return struct.pack('!f', number)


@contract('functions.not_bytes')
class not_bytes_c:
    """'Perform a bitwise NOT operation': same length, every byte complemented.  Stated through the
    unsigned value: ubig(result) == 2**(8*len) - 1 - ubig(b1)."""
    params = {'b1': 'bytes'}
    modifies = ()
    pure = ('not_f', 'bytes')

    def ensures(old, b1, result, raised):
        return [
            ('total', raised is None),
            ('len', implies(raised is None, lambda: len(result) == len(b1))),
            ('value', implies(raised is None, lambda: ubig(result) == pow2(8 * len(b1)) - 1 - ubig(b1))),
        ]

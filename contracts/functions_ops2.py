"""Contracts, part 2: plugins, signatures, Ed25519 arithmetic, adapters, embedder ops, bitwise ops,
strings, floats, flags.  See functions_ops.py for conventions."""
from pyvc.contracts import contract
from pyvc.vocab import (forall, implies, ubig, sdecode, take_top, put_all, AnyError, sha256, sha512, ed_verify, ed_sign,
                        is_list_or_absent, list_len_at, calls, same, dict_same, str_keys_same, use_lemma, top_items,
                        defined, unknown_bool, restrict_str)
from tapescript.errors import ScriptExecutionError
from tapescript.functions import (int_to_bytes, bytes_to_int, bytes_to_bool, bytes_to_float, float_to_bytes,
                                  run_sig_extensions, run_plugins, clamp_scalar, derive_key_from_seed,
                                  derive_point_from_scalar, aggregate_points, aggregate_scalars, H_big, H_small,
                                  bytes_are_same, xor, or_bytes, and_bytes)
from contracts.common import stack_ok, tape_ok
from contracts.functions_ops import (OPCK, STACK_ONLY, TAPE_STACK, vm_ok, clean, sigfields_ok, rd_u8, rd_u16,
                                     pull_inv, push_inv, ks_same_but_returned)
from math import isnan
import struct
import nacl.bindings

SIG_EXT = 'signature_extensions'


# ----------------------------------------------------------------------------------------- plugins
@contract('functions.<PLUGIN>')
class PLUGIN:
    """ASSUMED contract of an embedder plugin called with (tape, stack, cache) (A-PLUGIN): it may
    change the stack and the cache (that is what signature extensions are for) but keeps the VM
    invariants, leaves no pending RETURN and does not touch the tape."""
    params = {'tape': 'Tape', 'stack': 'Stack', 'cache': 'Cache'}
    modifies = ('stack.deque', 'cache')
    raises = (BaseException,)
    returns = 'any'
    trusted = True

    def requires(tape, stack, cache):
        return stack_ok(stack)

    def ensures(old, tape, stack, cache, result, raised):
        return stack_ok(stack) + sigfields_ok(cache) + [('clean', clean(cache) == clean(old.cache))]


def plugins_ok(tape, scope):
    return [('plugins.list', is_list_or_absent(tape.plugins, scope))]


def no_plugins(tape, scope):
    return list_len_at(tape.plugins, scope) == 0


@contract('functions.run_plugins')
class run_plugins_c:
    """'Runs all plugins of the given scope.'  Nothing happens when none is installed for the scope;
    otherwise each runs once, in order, under the assumed plugin contract."""
    params = {'scope': 'str', 'tape': 'Tape', 'stack': 'Stack', 'cache': 'Cache'}
    modifies = ('stack.deque', 'cache')
    raises = (BaseException,)
    returns = 'list[any]'

    def requires(scope, tape, stack, cache):
        return stack_ok(stack) + sigfields_ok(cache) + plugins_ok(tape, scope)

    def ensures(old, scope, tape, stack, cache, result, raised):
        return stack_ok(stack) + sigfields_ok(cache) + [
            ('clean', clean(cache) == clean(old.cache)),
            ('none-installed', implies(no_plugins(tape, scope),
                                       lambda: raised is None and same(old.stack.deque, stack.deque)
                                       and dict_same(old.cache, cache))),
        ]

    def noop_when(scope, tape, stack, cache):
        return no_plugins(tape, scope)      # justified by the clause `none-installed` above

    def inv0(stack, cache, i, loop_old, old):
        return stack_ok(stack) + sigfields_ok(cache) + [
            ('clean', clean(cache) == clean(old.cache)),
            ('ran', i == 0 or list_len_at(old.tape.plugins, old.scope) > 0)]
    loops = {0: {'inv': inv0, 'lists': {'result': 'val'}}}


@contract('functions.run_sig_extensions')
class run_sig_extensions_c:
    """'Runs all signature extension plugins.'"""
    params = {'tape': 'Tape', 'stack': 'Stack', 'cache': 'Cache'}
    modifies = ('stack.deque', 'cache')
    raises = (BaseException,)

    def requires(tape, stack, cache):
        return stack_ok(stack) + sigfields_ok(cache) + plugins_ok(tape, SIG_EXT)

    def ensures(old, tape, stack, cache, result, raised):
        return stack_ok(stack) + sigfields_ok(cache) + [
            ('clean', clean(cache) == clean(old.cache)),
            ('none-installed', implies(no_plugins(tape, SIG_EXT),
                                       lambda: raised is None and same(old.stack.deque, stack.deque)
                                       and dict_same(old.cache, cache))),
        ]

    def noop_when(tape, stack, cache):
        return no_plugins(tape, SIG_EXT)    # justified by the clause `none-installed` above


# -------------------------------------------------------------------------------------- signatures
def msg(cache, f):
    """C02: 'the concatenation in index order of those cache entries sigfield1..sigfield8 that are
    present and whose bit is clear in the flag byte'"""
    m = b''
    for i in range(1, 9):
        k = 'sigfield' + str(i)
        if k in cache and (f & (1 << (i - 1))) == 0:
            m = m + cache[k]
    return m


SIGFIELDS = tuple('sigfield' + str(i) for i in range(1, 9))


def sig_valid(cache, allowed, key, sig):
    """C02 / C03: `sig` is a valid signature under `key` in the sense of C02 (lengths, permitted
    flag bits, Ed25519 over the flag-selected message)"""
    if len(key) != 32:
        return False
    if len(sig) != 64 and len(sig) != 65:
        return False
    f = 0 if len(sig) == 64 else sig[64]
    if (f & (allowed ^ 255)) != 0:
        return False
    return ed_verify(key, msg(cache, f), sig[:64])


def abs_check_sig(tape, stack, cache):
    """C03: what the matching loop of OP_CHECK_MULTISIG may rely on.  OP_CHECK_SIG without plugins reads
    the allowed-flags byte, takes the key and the signature, and either fails or yields the truth value
    of sig_valid -- a function of (cache, allowed, key, sig) only; nothing else changes.
    Justified against spec_check_sig by the lemma C03/abs-sound (props/lemmas_multisig.py)."""
    allowed = rd_u8(tape)
    key = stack.get()
    sig = stack.get()
    if unknown_bool('check_sig_fails'):
        raise AnyError
    stack.put(b'\xff' if defined('sig_valid', sig_valid, restrict_str(cache, SIGFIELDS), allowed, key, sig) else b'\x00')


def via_stack(stack, item):
    """a value handed through the stack is subject to the item limits"""
    stack.put(item)
    return stack.get()


def spec_get_message(tape, stack, cache):
    run_sig_extensions(tape, stack, cache)
    f = rd_u8(tape)
    stack.put(msg(cache, f))


@contract('functions.OP_GET_MESSAGE')
class OP_GET_MESSAGE_c:
    """'Reads a byte from tape as the sigflags; constructs the message that will be used by OP_SIGN and
    OP_CHECK_SIG/_VERIFY from the sigfields; puts the result onto the stack. Runs the signature
    extension plugins beforehand.'"""
    extends = OPCK
    modifies = ('tape.pointer', 'stack.deque', 'cache')

    def requires(tape, stack, cache):
        return plugins_ok(tape, SIG_EXT)

    def spec(tape, stack, cache):
        spec_get_message(tape, stack, cache)

    def ensures(old, tape, stack, cache, result, raised):
        return [('!plugins-once', calls('run_sig_extensions') == 1)]


def spec_check_sig(tape, stack, cache):
    run_sig_extensions(tape, stack, cache)
    allowed = rd_u8(tape)
    key = stack.get()
    sig = stack.get()
    if len(key) != 32:
        raise ValueError
    if len(sig) != 64 and len(sig) != 65:
        raise ValueError
    f = 0 if len(sig) == 64 else sig[64]          # the optional 65th byte
    if (f & (allowed ^ 255)) != 0:
        raise ScriptExecutionError
    m = via_stack(stack, msg(cache, f))
    stack.put(b'\xff' if ed_verify(key, m, sig[:64]) else b'\x00')


@contract('functions.OP_CHECK_SIG')
class OP_CHECK_SIG_c:
    """C02: 'yield true exactly when the first 64 bytes of the supplied signature are a valid Ed25519
    signature, under the supplied 32-byte key, of [msg]; a flag bit not permitted by the allowed-flags
    operand, or a key or signature of the wrong length, is an execution error, never true'.
    Plugins run exactly once (the inner OP_GET_MESSAGE gets a plugin-less tape)."""
    extends = OPCK
    modifies = ('tape.pointer', 'stack.deque', 'cache')

    def requires(tape, stack, cache):
        return plugins_ok(tape, SIG_EXT)

    def spec(tape, stack, cache):
        spec_check_sig(tape, stack, cache)


def spec_verify(tape, stack, cache):
    if not bytes_to_bool(stack.get()):
        raise ScriptExecutionError


@contract('functions.OP_CHECK_SIG_VERIFY')
class OP_CHECK_SIG_VERIFY_c:
    """'Runs OP_CHECK_SIG, then OP_VERIFY.'"""
    extends = OPCK
    modifies = ('tape.pointer', 'stack.deque', 'cache')

    def requires(tape, stack, cache):
        return plugins_ok(tape, SIG_EXT)

    def spec(tape, stack, cache):
        spec_check_sig(tape, stack, cache)
        spec_verify(tape, stack, cache)


def flag_on(tape, n):
    return n in tape.flags and tape.flags[n]


@contract('functions.OP_SIGN')
class OP_SIGN_c:
    """'Reads 1 byte from the tape as the sig_flag; pulls a value from the stack, interpreting as a
    SigningKey; creates a signature using the correct sigfields; puts the signature onto the stack.
    Raises ValueError for invalid key seed length. ... Resulting signature will have the sig_flag
    appended to it if a non-null sig_flag is specified.'  C02: signs exactly msg(cache, flag)."""
    extends = OPCK
    modifies = ('tape.pointer', 'stack.deque', 'cache')

    def requires(tape, stack, cache):
        return plugins_ok(tape, SIG_EXT)

    def spec(tape, stack, cache):
        run_sig_extensions(tape, stack, cache)
        f = rd_u8(tape)
        seed = stack.get()
        if len(seed) != 32:
            raise ValueError
        m = via_stack(stack, msg(cache, f))
        sig = ed_sign(seed, m)
        if f != 0:
            sig = sig + tape.data[tape.pointer - 1:tape.pointer]
        if flag_on(tape, 9):
            cache[b's'] = sig
        stack.put(sig)


@contract('functions.OP_SIGN_STACK')
class OP_SIGN_STACK_c:
    """'Pulls a value from the stack, interpreting as a SigningKey; pulls a message from the stack;
    signs the message with the SigningKey; puts the signature onto the stack. Raises ValueError for
    invalid key seed length.'"""
    extends = OPCK
    modifies = ('stack.deque', 'cache')

    def spec(tape, stack, cache):
        seed = stack.get()
        m = stack.get()
        if len(seed) != 32:
            raise ValueError
        sig = ed_sign(seed, m)
        if flag_on(tape, 9):
            cache[b's'] = sig
        stack.put(sig)


@contract('functions.OP_CHECK_SIG_STACK')
class OP_CHECK_SIG_STACK_c:
    """'Pulls a value from the stack, interpreting as a VerifyKey; pulls a message from the stack;
    pulls a value from the stack, interpreting as a signature; puts True onto the stack if the
    signature is valid for the message and the VerifyKey, otherwise puts False onto the stack. Raises
    ValueError for invalid vkey or signature.'"""
    extends = OPCK
    modifies = STACK_ONLY

    def spec(tape, stack, cache):
        key = stack.get()
        if len(key) != 32:
            raise ValueError
        m = stack.get()
        sig = stack.get()
        if len(sig) != 64:
            raise ValueError
        stack.put(b'\xff' if ed_verify(key, m, sig) else b'\x00')


# ------------------------------------------------------------------------------ Ed25519 helpers
@contract('functions.clamp_scalar')
class clamp_scalar_c:
    """'Make a clamped ed25519 scalar by setting specific bits.'  bytes input of 32+ bytes: the first
    32 bytes with bit 255 cleared, and for a private key bits 0-2 cleared and bit 254 set."""
    params = {'scalar': 'bytes', 'from_private_key': 'bool'}
    modifies = ()

    def spec(scalar, from_private_key):
        if len(scalar) < 32:
            raise ValueError
        b0 = scalar[0]
        b31 = scalar[31]
        if from_private_key:
            b0 = b0 & 0b11111000
            b31 = b31 | 0b01000000
        b31 = b31 & 0b01111111
        return bytes([b0]) + scalar[1:31] + bytes([b31])


@contract('functions.H_big')
class H_big_c:
    """'The big, 64-byte hash function.' sha512 of the concatenated parts (A-HASH: uninterpreted)."""
    params = {'parts': 'tuple3'}
    modifies = ()

    def spec(*parts):
        return sha512(b''.join(parts))


@contract('functions.H_small')
class H_small_c:
    """'The small, 32-byte hash function.'  sha512 reduced modulo the group order."""
    params = {'parts': 'tuple3'}
    modifies = ()

    def spec(*parts):
        return nacl.bindings.crypto_core_ed25519_scalar_reduce(sha512(b''.join(parts)))


@contract('functions.derive_key_from_seed')
class derive_key_from_seed_c:
    """'Derive the scalar used for signing from a seed.'  clamp(sha512(seed)[:32]) as a private key."""
    params = {'seed': 'bytes'}
    modifies = ()

    def spec(seed):
        return clamp_scalar(sha512(seed)[:32], True)

    def ensures(old, seed, result, raised):
        return [('total', raised is None), ('len', implies(raised is None, lambda: len(result) == 32))]


@contract('functions.derive_point_from_scalar')
class derive_point_from_scalar_c:
    """'Derives an ed25519 point from a scalar.'  libsodium crypto_scalarmult_ed25519_base_noclamp."""
    params = {'scalar': 'bytes'}
    modifies = ()

    def spec(scalar):
        return nacl.bindings.crypto_scalarmult_ed25519_base_noclamp(scalar)

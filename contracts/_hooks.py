"""Engine hooks (not contracts): dispatch through the opcode table, opaque embedder calls, unknown
heap objects loaded from symbolic dicts."""
import z3
from pyvc import sym
from pyvc.sym import HObj, HDict, ZList, SV, Opaque, VAL, I, zint, fresh
from pyvc.interp import Unsupported, AstFunc
from pyvc.apply import apply_to_params
from pyvc.state import Mk

OPCK = 'functions.<OPC>'      # what dispatch assumes (the weak common contract)
DISPATCHK = 'functions.<DISPATCH>'
_LABELS_OK = {}
PLUGINK = 'functions.<PLUGIN>'


def configure(ip, reg, contract):
    g = ip.ctx.ghost
    g['dispatch_hook'] = dispatch
    g['opaque_hook'] = opaque_call
    g['unknown_factory'] = unknown


def _extends_opc(reg, key):
    c = reg.get(key)
    seen = set()
    while c is not None and c.key not in seen:
        if c.key == OPCK:
            return True
        seen.add(c.key)
        c = reg.get(c.extends) if c.extends else None
    return False


def dispatch(ip, en, args, kwargs):
    """op(tape, stack, cache) with op a symbolic entry of the opcode table: every entry of the live
    table must be under a contract that extends OPC; the call is then a use of OPC."""
    reg = ip.reg
    for fn in en.table.values():
        key = ip.src.key_of(fn)
        if key is None or not _extends_opc(reg, key):
            raise Unsupported(f'opcode table entry {getattr(fn, "__name__", fn)!r} has no contract extending OPC')
    ip.ctx.ghost.setdefault('dispatch_entries', set()).update(ip.src.key_of(fn) for fn in en.table.values())
    if len(args) != 3 or kwargs:
        raise Unsupported('dispatch call shape')
    params = {'tape': args[0], 'stack': args[1], 'cache': args[2]}
    _check_requires_covered(ip, reg, en, params)
    return apply_to_params(ip, reg.get(DISPATCHK), params)


def _check_requires_covered(ip, reg, en, params):
    """every clause (by label) of every table entry's precondition is a clause of <DISPATCH>.requires"""
    from pyvc.apply import all_clauses
    keys = sorted({ip.src.key_of(fn) for fn in en.table.values()})
    sig = tuple(keys)
    if _LABELS_OK.get(sig):
        return
    from pyvc.heap import snapshot
    ip.ctx.solver.push()
    saved = (len(ip.ctx.pc), len(ip.ctx.obls), len(ip.ctx.taken))
    try:
        have = {l for l, _ in all_clauses(ip, reg.get(DISPATCHK), 'requires', snapshot(dict(params)))}
        for k in keys:
            need = {l.split(':')[-1] for l, _ in all_clauses(ip, reg.get(k), 'requires', snapshot(dict(params)))}
            extra = {l for l in need if l not in {h.split(':')[-1] for h in have}}
            if extra:
                raise Unsupported(f'precondition clauses {sorted(extra)} of {k} are not established by dispatch')
    finally:
        ip.ctx.solver.pop()
        del ip.ctx.pc[saved[0]:]
        del ip.ctx.obls[saved[1]:]
        del ip.ctx.taken[saved[2]:]
    _LABELS_OK[sig] = True


def opaque_call(ip, fn, args, kwargs, method):
    """call of an embedder object.  A plugin receives (tape, stack, cache): its effect is the assumed
    contract <PLUGIN>.  Anything else (contract methods on plain data) is an unknown pure function."""
    reg = ip.reg
    if method is None and len(args) == 3 and isinstance(args[0], HObj) and isinstance(args[1], HObj) \
            and isinstance(args[2], HDict):
        ip.ctx.ghost.setdefault('assumptions', set()).add('A-PLUGIN: plugins preserve the VM invariants')
        return apply_to_params(ip, reg.get(PLUGINK), {'tape': args[0], 'stack': args[1], 'cache': args[2]})
    for a in list(args) + list(kwargs.values()):
        if isinstance(a, (HObj, HDict)):
            raise Unsupported('embedder call receiving a VM object')
    ip.ctx.ghost.setdefault('assumptions', set()).add('A-EMBED: contract methods do not touch VM state')
    k = ip.ctx.count('opaque:' + (method or 'call'))
    e = z3.Const(f'embed_{method or "call"}#{k}', VAL)
    ip.ctx.define(z3.Not(VAL.is_absent(e)))
    ip.ctx.define(z3.Not(VAL.is_vref(e)))
    return SV(e)


def unknown(ip, rid, hint, origin=None):
    """heap object behind a reference found in a symbolic dict.  The objects belong to the dict they
    were read from (origin.refs), so that a snapshot of the dict keeps their old contents."""
    g = ip.ctx.ghost
    if origin is not None:
        memo = origin.refs.setdefault('list', [])
    else:
        memo = g.setdefault('unknown_objs', [])
    for r, o in memo:
        if r.eq(zint(rid)):
            return o
    if hint == 'list':
        from pyvc.vocab_sym import ref_len, ref_arr
        z = ZList('val', ref_arr(zint(rid)), ref_len(zint(rid)), kind='list')
        ip.ctx.define(zint(z.ln) >= 0)
        memo.append((zint(rid), z))
        return z
    if hint == 'Tape':
        mk = g.get('tape_factory')
        if mk is None:
            raise Unsupported('definition tape loaded without an aliasing specification')
        o = mk(ip, rid)
        memo.append((zint(rid), o))
        return o
    return Opaque('ref', rid)

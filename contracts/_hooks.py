"""Engine hooks (not contracts): dispatch through the opcode table, opaque embedder calls."""


def configure(ip, reg, contract):
    pass

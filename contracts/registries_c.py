"""Contracts for the extension registries (C19): plugins, contracts, contract interfaces, aliases.
Abstract views: plugins(scope) a list viewed as a set, contracts / interfaces / aliases maps.  Every
operation states the WHOLE view afterwards (what was added / removed and that everything else is
unchanged), so set semantics over any history follows by induction over these."""
from pyvc.contracts import contract
from pyvc.vocab import (forall, exists, implies, same, dict_same, is_list_or_absent, list_len_at, list_at,
                        dict_same_except)
from tapescript.errors import ScriptExecutionError


def registry_ok(G_plugins, scope):
    return [('registry.list', is_list_or_absent(G_plugins, scope))]


def member(lst, x):
    return exists(0, len(lst), lambda j: lst[j] == x)


def nodup(lst):
    return forall(0, len(lst), lambda a: forall(0, len(lst), lambda b: implies(a != b, lst[a] != lst[b])))


@contract('functions.add_plugin')
class add_plugin_c:
    """'Adds a plugin for the given scope. Raises TypeError if scope is not str or if plugin is not
    callable.'  C19: afterwards the scope's entries are the old ones plus the plugin, no duplicate."""
    params = {'scope': 'str', 'plugin': 'opaque'}
    globals = {'_plugins': 'dict[list]'}
    modifies = ('G_plugins',)

    def requires(scope, plugin, G_plugins):
        return registry_ok(G_plugins, scope) + [('nodup', implies(scope in G_plugins, lambda: nodup(G_plugins[scope])))]

    def ensures(old, scope, plugin, result, raised, G_plugins):
        return [
            ('type-error', (raised is TypeError) == (not callable(plugin))),
            ('present', implies(raised is None, lambda: scope in G_plugins and member(G_plugins[scope], plugin))),
            ('nodup', implies(raised is None and scope in G_plugins, lambda: nodup(G_plugins[scope]))),
            ('others-kept', implies(raised is None and scope in old.G_plugins and scope in G_plugins,
                                    lambda: forall(0, len(old.G_plugins[scope]),
                                                   lambda j: member(G_plugins[scope], old.G_plugins[scope][j])))),
            ('nothing-else-added', implies(raised is None and scope in old.G_plugins and scope in G_plugins,
                                           lambda: forall(0, len(G_plugins[scope]),
                                                          lambda j: G_plugins[scope][j] == plugin
                                                          or member(old.G_plugins[scope], G_plugins[scope][j])))),
            ('other-scopes', dict_same_except(old.G_plugins, G_plugins, scope)),
        ]


@contract('functions.remove_plugin')
class remove_plugin_c:
    """'Removes a plugin for the given scope.'  C19: afterwards the plugin is not active in the scope
    (given no duplicates), every other entry is."""
    params = {'scope': 'str', 'plugin': 'opaque'}
    globals = {'_plugins': 'dict[list]'}
    modifies = ('G_plugins',)

    def requires(scope, plugin, G_plugins):
        return registry_ok(G_plugins, scope) + [('nodup', implies(scope in G_plugins, lambda: nodup(G_plugins[scope])))]

    def ensures(old, scope, plugin, result, raised, G_plugins):
        return [
            ('total', raised is None),
            ('absent', implies(scope in G_plugins, lambda: not member(G_plugins[scope], plugin))),
            ('others-kept', implies(scope in old.G_plugins and scope in G_plugins,
                                    lambda: forall(0, len(old.G_plugins[scope]),
                                                   lambda j: old.G_plugins[scope][j] == plugin
                                                   or member(G_plugins[scope], old.G_plugins[scope][j])))),
            ('scope-kept', (scope in G_plugins) == (scope in old.G_plugins)),
            ('nothing-added', implies(scope in old.G_plugins and scope in G_plugins,
                                      lambda: forall(0, len(G_plugins[scope]),
                                                     lambda j: member(old.G_plugins[scope], G_plugins[scope][j])))),
            ('other-scopes', dict_same_except(old.G_plugins, G_plugins, scope)),
        ]


@contract('functions.reset_plugins')
class reset_plugins_c:
    """'Removes all plugins for the given scope.'  C19: afterwards no entry of the scope is active."""
    params = {'scope': 'str'}
    globals = {'_plugins': 'dict[list]'}
    modifies = ('G_plugins',)

    def requires(scope, G_plugins):
        return registry_ok(G_plugins, scope)

    def ensures(old, scope, result, raised, G_plugins):
        return [
            ('total', raised is None),
            ('empty', implies(scope in G_plugins, lambda: len(G_plugins[scope]) == 0)),
            ('other-scopes', dict_same_except(old.G_plugins, G_plugins, scope)),
        ]


@contract('functions.add_contract')
class add_contract_c:
    """'Add a contract to be loaded on each script execution. Raises TypeError if contract_id is not
    bytes. Calls _check_contract ...'  C19: the map afterwards is the old map with this one entry."""
    params = {'contract_id': 'bytes', 'contract': 'opaque'}
    globals = {'_contracts': 'dict'}
    modifies = ('G_contracts',)
    raises = (ScriptExecutionError,)

    def ensures(old, contract_id, contract, result, raised, G_contracts):
        return [
            ('stored', implies(raised is None, lambda: contract_id in G_contracts and G_contracts[contract_id] == contract)),
            ('others', dict_same_except(old.G_contracts, G_contracts, contract_id)),
            ('unchanged-on-error', implies(raised is not None, dict_same(old.G_contracts, G_contracts))),
        ]


@contract('functions.remove_contract')
class remove_contract_c:
    """'Remove a loaded contract to prevent it from being included on script execution.'"""
    params = {'contract_id': 'bytes'}
    globals = {'_contracts': 'dict'}
    modifies = ('G_contracts',)

    def ensures(old, contract_id, result, raised, G_contracts):
        return [
            ('total', raised is None),
            ('absent', contract_id not in G_contracts),
            ('others', dict_same_except(old.G_contracts, G_contracts, contract_id)),
        ]


@contract('functions._check_contract')
class _check_contract_c:
    """'Check a contract against required interfaces. Raise ScriptExecutionError if it does not match
    at least one.'  (the interface registry is a concrete dict of Protocol classes; matching is an
    opaque isinstance test)"""
    params = {'contract': 'opaque'}
    modifies = ()
    raises = (ScriptExecutionError,)
    trusted = True


from tapescript.functions import add_plugin, remove_plugin, reset_plugins   # noqa: E402


@contract('functions.add_signature_extension')
class add_signature_extension_c:
    """'Adds a signature extension plugin ...' == add_plugin('signature_extensions', plugin)"""
    params = {'plugin': 'opaque'}
    globals = {'_plugins': 'dict[list]'}
    modifies = ('G_plugins',)
    compare = ('G_plugins',)

    def requires(plugin, G_plugins):
        return add_plugin_c.requires('signature_extensions', plugin, G_plugins)

    def spec(plugin):
        add_plugin('signature_extensions', plugin)


@contract('functions.remove_signature_extension')
class remove_signature_extension_c:
    params = {'plugin': 'opaque'}
    globals = {'_plugins': 'dict[list]'}
    modifies = ('G_plugins',)
    compare = ('G_plugins',)

    def requires(plugin, G_plugins):
        return remove_plugin_c.requires('signature_extensions', plugin, G_plugins)

    def spec(plugin):
        remove_plugin('signature_extensions', plugin)


@contract('functions.reset_signature_extensions')
class reset_signature_extensions_c:
    params = {}
    globals = {'_plugins': 'dict[list]'}
    modifies = ('G_plugins',)
    compare = ('G_plugins',)

    def requires(G_plugins):
        return reset_plugins_c.requires('signature_extensions', G_plugins)

    def spec():
        reset_plugins('signature_extensions')

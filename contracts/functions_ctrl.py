"""Contracts for control flow: OP_RETURN, OP_DEF, OP_CALL, OP_IF, OP_IF_ELSE, OP_EVAL, OP_TRY_EXCEPT,
OP_LOOP, OP_MERKLEVAL, OP_TAPROOT, and for set_tape_flags / run_tape / run_script / run_auth_scripts.

The effect of running a sub-script is unknown here (run_tape is used through its contract); what the
specs fix is WHICH bytes become the sub-script, WHEN it runs, with which configuration (C09: the
call-site assertion `config`), how RETURN propagates (C01 / C06) and which limits are charged (C07).
"""
from pyvc.contracts import contract
from pyvc.vocab import (forall, implies, ubig, sha256, same, dict_same, str_keys_same, strint_keys_same,
                        all_values_refs, is_list_or_absent, list_len_at, use_lemma, strint_part, AnyError, lemma_point)
from tapescript.errors import ScriptExecutionError
from tapescript.classes import Tape, Stack
from tapescript.functions import (bytes_to_bool, run_tape, set_tape_flags, flags, flags_to_set, clamp_scalar,
                                  derive_point_from_scalar, aggregate_points, bytes_are_same, xor, run_script,
                                  _contracts, _plugins)
from contracts.common import stack_ok, tape_ok
from contracts.functions_ops import (OPCK, OPC_WEAK, vm_ok, clean, sigfields_ok, rd_u8, rd_u16, flags_typed,
                                     no_plugins_at_all, ks_same_but_returned, opc_post, flags_complete, defs_ok)
from contracts.functions_ops2 import plugins_ok, SIG_EXT, spec_check_sig, spec_verify
from contracts.functions_ops3 import padded, imax
from time import time
import os

ALL = ('tape.pointer', 'tape.callstack_count', 'tape.definitions', 'tape.flags', 'stack.deque', 'cache')


# ------------------------------------------------------------------------------------- flags / run
def requires_complete(tape, stack, cache):
    """control instructions hand their configuration to a sub-script: the flag table must be complete"""
    return flags_complete(tape) + defs_ok(tape)


def default_flags():
    """the value set_tape_flags gives every str / int key of functions.flags"""
    return {k: (flags[k] if k in flags_to_set else False) for k in flags if type(k) in (str, int)}


def effective_flags(tape_flags, additional_flags):
    """C09: flags a tape runs under: its own entries, overridden by the defaults for every known flag,
    overridden by the str / int entries of additional_flags AS PASSED (docstring: 'Sets flags included in
    flags_to_set and any additional_flags for the tape')"""
    return {**tape_flags, **default_flags(), **strint_part(additional_flags)}


@contract('functions.set_tape_flags')
class set_tape_flags_c:
    """'Sets flags included in flags_to_set and any additional_flags for the tape.'  Contract ASSUMED
    here (iteration over a dict with a symbolic key set is outside the executor); checked by the bounded
    stand-in props/bounded.py, including the case additional_flags is tape.flags."""
    params = {'tape': 'Tape', 'additional_flags': 'dict'}
    modifies = ('tape.flags',)
    trusted = True

    def spec(tape, additional_flags):
        new = effective_flags(tape.flags, additional_flags)
        assign_dict(tape.flags, new)
        return tape


def assign_dict(dst, src):
    """dst becomes equal to src, in place"""
    dst.clear()
    dst.update(src)


def config_eq(tape, sub, additional_flags):
    """C09: a sub-script runs under exactly the configuration of the script that contains it"""
    return [
        ('flags', strint_keys_same(effective_flags(sub.flags, additional_flags), tape.flags)),
        ('plugins', dict_same(sub.plugins, tape.plugins)),
        ('contracts', dict_same(sub.contracts, tape.contracts)),
        ('callstack_limit', sub.callstack_limit == tape.callstack_limit),
    ]


@contract('functions.run_tape')
class run_tape_c:
    """'Run the given tape using the stack and cache.'
    C01: runs from the current position to the end of the tape or to its own RETURN: on a normal exit
    the tape has terminated, and a pending RETURN is possible only then; C07: limits hold at every step
    (loop invariant), the position never moves backwards and strictly advances per instruction
    (variant); C08: str-keyed cache entries are untouched apart from 'returned'; every opcode byte
    dispatches (no KeyError: opcodes and nopcodes cover 0..255)."""
    params = {'tape': 'Tape', 'stack': 'Stack', 'cache': 'Cache', 'additional_flags': 'dict'}
    modifies = ALL
    raises = (BaseException,)

    def requires(tape, stack, cache, additional_flags):
        return tape_ok(tape) + stack_ok(stack) + [('clean', clean(cache))] + sigfields_ok(cache) + \
            flags_typed_after(tape, additional_flags) + plugins_ok(tape, SIG_EXT) + plugins_ok(tape, 'check_template') + \
            defs_ok(tape)

    def ensures(old, tape, stack, cache, additional_flags, result, raised):
        return tape_ok(tape) + stack_ok(stack) + sigfields_ok(cache) + flags_typed(tape) + flags_complete(tape) + \
            defs_ok(tape) + [
            ('terminated', implies(raised is None, tape.pointer == len(tape.data))),
            ('clean-on-raise', implies(raised is not None, clean(cache))),
            ('pointer.monotone', tape.pointer >= old.tape.pointer),
            ('callstack.monotone', tape.callstack_count >= old.tape.callstack_count),
            ('ks-frame-but-returned', implies(no_plugins_at_all(tape), ks_same_but_returned(old.cache, cache))),
        ]

    def inv0(tape, stack, cache, old, loop_old):
        return tape_ok(tape) + stack_ok(stack) + sigfields_ok(cache) + flags_typed(tape) + flags_complete(tape) + \
            defs_ok(tape) + [
            ('returned-protocol', clean(cache) or tape.pointer == len(tape.data)),
            ('pointer.monotone', tape.pointer >= old.tape.pointer),
            ('callstack.monotone', tape.callstack_count >= old.tape.callstack_count),
            ('ks-frame-but-returned', implies(no_plugins_at_all(tape), ks_same_but_returned(old.cache, cache))),
        ]

    def var0(tape):
        return len(tape.data) - tape.pointer
    loops = {0: {'inv': inv0, 'variant': var0, 'modifies': ALL}}


def flags_typed_after(tape, additional_flags):
    """after set_tape_flags the integer flags 0..10 hold booleans: additional_flags must not put
    anything else there"""
    return [(f'flag{i}.bool', is_bool_or_absent(additional_flags, i)) for i in range(0, 11)]


from pyvc.vocab import is_bool_or_absent   # noqa: E402


# ----------------------------------------------------------------------------------------- RETURN
@contract('functions.OP_RETURN')
class OP_RETURN_c:
    """'Ends the script.'  The tape is moved to its end and a RETURN is pending (ghost: the only
    instruction that sets it)."""
    extends = OPCK
    modifies = ('tape.pointer', 'cache')

    def spec(tape, stack, cache):
        tape.pointer = len(tape.data)
        cache['returned'] = True


def propagate_return(tape, cache):
    """IF / ELSE and TRY / EXCEPT bodies are transparent to RETURN (C06)"""
    if 'returned' in cache:
        tape.pointer = len(tape.data)
        cache['returned'] = True


def subtape(tape, data):
    """C09: the configuration every sub-script of a conditional / try / loop body must get"""
    return Tape(data, callstack_limit=tape.callstack_limit, callstack_count=tape.callstack_count,
                definitions={**tape.definitions}, contracts=tape.contracts, plugins=tape.plugins)


def site_config(tape, callee):
    return config_eq(tape, callee.tape, callee.additional_flags)


# ------------------------------------------------------------------------------------- IF / ELSE
@contract('functions.OP_IF')
class OP_IF_c:
    requires = requires_complete
    """'Read the next 2 bytes from the tape, interpreting as an unsigned int; read that many bytes from
    the tape as a subroutine definition; pull a value from the stack and evaluate as a bool; if it is
    true, run the subroutine.'"""
    extends = OPCK
    modifies = ALL
    sites = {'run_tape': site_config}

    def spec(tape, stack, cache):
        size = rd_u16(tape)
        body = tape.read(size)
        if bytes_to_bool(stack.get()):
            run_tape(subtape(tape, body), stack, cache, tape.flags)
            propagate_return(tape, cache)


@contract('functions.OP_IF_ELSE')
class OP_IF_ELSE_c:
    requires = requires_complete
    """'... pull a value from the stack and evaluate as a bool; if it is true, run the IF subroutine;
    else run the ELSE subroutine.'"""
    extends = OPCK
    modifies = ALL
    sites = {'run_tape': site_config}

    def spec(tape, stack, cache):
        n1 = rd_u16(tape)
        body1 = tape.read(n1)
        n2 = rd_u16(tape)
        body2 = tape.read(n2)
        if bytes_to_bool(stack.get()):
            run_tape(subtape(tape, body1), stack, cache, tape.flags)
        else:
            run_tape(subtape(tape, body2), stack, cache, tape.flags)
        propagate_return(tape, cache)


# ------------------------------------------------------------------------------------------- EVAL
def spec_eval(tape, stack, cache):
    if 'disallow_OP_EVAL' in tape.flags:
        raise ScriptExecutionError
    if tape.callstack_count >= tape.callstack_limit:
        raise ScriptExecutionError
    script = stack.get()
    if len(script) == 0:
        raise ValueError
    sub = Tape(script, callstack_count=tape.callstack_count + 1, callstack_limit=tape.callstack_limit,
               definitions={**tape.definitions}, contracts=tape.contracts, flags={**tape.flags},
               plugins=tape.plugins)
    run_tape(sub, stack, cache, tape.flags)
    if 'returned' in cache:
        if 'eval_return' in tape.flags and tape.flags['eval_return']:
            tape.pointer = len(tape.data)
            cache['returned'] = True
        else:
            del cache['returned']


def abs_eval_stop(tape, stack, cache):
    """lemma-local stand-in for OP_EVAL on an arbitrary supplied script: the lemma states its claim at
    the point where the script would start (`no instruction of the supplied script executes unless
    ...`), and the run ends there -- what an arbitrary script then does is its own business"""
    if 'disallow_OP_EVAL' in tape.flags:
        raise AnyError
    if tape.callstack_count >= tape.callstack_limit:
        raise AnyError
    script = stack.get()
    if len(script) == 0:
        raise AnyError
    lemma_point('eval', script, stack)
    raise AnyError


@contract('functions.OP_EVAL')
class OP_EVAL_c:
    requires = requires_complete
    """'Pulls a value from the stack then attempts to run it as a script. ... Script is disallowed from
    modifying tape.flags or tape.definitions; it is executed with callstack_count=tape.callstack_count+1
    and copies of tape.flags and tape.definitions; it also has access to all loaded contracts.'
    C06: an evaluated script returns only to its caller (unless the eval_return flag is set);
    C07: charged against the call-stack limit."""
    extends = OPCK
    modifies = ('tape.pointer', 'stack.deque', 'cache')
    sites = {'run_tape': site_config}

    def spec(tape, stack, cache):
        spec_eval(tape, stack, cache)


# ------------------------------------------------------------------------------------ TRY / EXCEPT
@contract('functions.OP_TRY_EXCEPT')
class OP_TRY_EXCEPT_c:
    requires = requires_complete
    """'... execute the TRY subroutine in a try block; if an error occurs, serialize it and put it in
    the cache then run the EXCEPT subroutine.'  (cache key b'E')"""
    extends = OPCK
    modifies = ALL
    sites = {'run_tape': site_config}

    def spec(tape, stack, cache):
        n1 = rd_u16(tape)
        body1 = tape.read(n1)
        n2 = rd_u16(tape)
        body2 = tape.read(n2)
        try:
            run_tape(subtape(tape, body1), stack, cache, tape.flags)
        except BaseException as e:
            cache[b'E'] = [error_text(e)]
            run_tape(subtape(tape, body2), stack, cache, tape.flags)
        propagate_return(tape, cache)


def error_text(e):
    return (e.__class__.__name__ + '|' + str(e)).encode('utf-8')


# ------------------------------------------------------------------------------------------- LOOP
@contract('functions.OP_LOOP')
class OP_LOOP_c:
    requires = requires_complete
    """'Read 2 bytes from the tape as uint len; read that many bytes from the tape as the loop
    definition; run the loop as long as the top value of the stack is not false or until a callstack
    limit exceeded error is raised.'  C07: at most callstack_limit iterations; C01 / C06: a RETURN in
    the body ends the loop and is not left pending (common op contract, returned-protocol)."""
    extends = OPC_WEAK        # the loop body shares the flags dict of the enclosing script
    modifies = ALL
    sites = {'run_tape': site_config}

    def inv0(tape, stack, cache, count, subtape, old):
        return tape_ok(tape) + stack_ok(stack) + sigfields_ok(cache) + flags_typed(tape) + flags_complete(tape) + \
            tape_ok(subtape) + defs_ok(tape) + [
            ('clean', clean(cache)),
            ('count', 0 <= count),
            ('pointer', tape.pointer == loop_pointer(old)),
            ('callstack.monotone', tape.callstack_count >= old.tape.callstack_count),
            ('ks-frame-but-returned', implies(no_plugins_at_all(tape), ks_same_but_returned(old.cache, cache))),
            ('sub.plugins', plugins_ok(subtape, SIG_EXT)[0][1] and plugins_ok(subtape, 'check_template')[0][1]),
        ]

    def var0(tape, count):
        return tape.callstack_limit - count
    loops = {0: {'inv': inv0, 'variant': var0,
                 'modifies': ALL + ('subtape.pointer', 'subtape.callstack_count', 'subtape.flags',
                                    'subtape.definitions')}}


def loop_pointer(old):
    """position after the loop operands"""
    return old.tape.pointer + 2 + ubig(old.tape.data[old.tape.pointer:old.tape.pointer + 2])


# ------------------------------------------------------------------------------------- DEF / CALL
@contract('functions.OP_DEF')
class OP_DEF_c:
    """'Read the next byte from the tape as the definition number; read the next 2 bytes from the tape,
    interpreting as an unsigned int; read that many bytes from the tape as the subroutine definition.'
    C09: the stored definition tape carries the configuration of the defining tape."""
    extends = OPCK
    modifies = ('tape.pointer', 'tape.definitions')

    def ensures(old, tape, stack, cache, result, raised, def_handle, def_data, subtape):
        return [
            ('stored', implies(raised is None, lambda: tape.definitions[def_handle] is subtape)),
            ('data', implies(raised is None, lambda: subtape.data == def_data and subtape.pointer == 0)),
            ('shares-definitions', implies(raised is None, lambda: subtape.definitions is tape.definitions)),
            ('config.flags', implies(raised is None, lambda: subtape.flags is tape.flags)),
            ('config.contracts', implies(raised is None, lambda: dict_same(subtape.contracts, tape.contracts))),
            ('config.plugins', implies(raised is None, lambda: dict_same(subtape.plugins, tape.plugins))),
            ('config.limit', implies(raised is None, lambda: subtape.callstack_limit == tape.callstack_limit)),
            ('operands', implies(raised is None,
                                 lambda: tape.pointer == old.tape.pointer + 3 + len(def_data)
                                 and def_handle == old.tape.data[old.tape.pointer:old.tape.pointer + 1]
                                 and def_data == old.tape.data[old.tape.pointer + 3:tape.pointer])),
            ('clean', clean(cache)),
        ]


def call_case_self(mk, base):
    """the called definition is the running tape itself (recursion inside a definition)"""
    mk.ip.ctx.ghost['tape_factory'] = lambda ip, rid: base['tape']
    return base


def call_case_shared_flags(mk, base):
    """a different tape whose flags dict is the caller's (defined by the caller itself)"""
    t = base['tape']

    def f(ip, rid):
        d = mk.tape('def')
        d.f['flags'] = t.f['flags']
        d.f['definitions'] = t.f['definitions']
        _def_inv(mk, t, d)
        return d
    mk.ip.ctx.ghost['tape_factory'] = f
    return base


def call_case_distinct(mk, base):
    """a different tape with its own flags dict (called from inside an IF / TRY / EVAL body)"""
    t = base['tape']

    def f(ip, rid):
        d = mk.tape('def')
        d.f['definitions'] = t.f['definitions']
        _def_inv(mk, t, d)
        return d
    mk.ip.ctx.ghost['tape_factory'] = f
    return base


def _def_inv(mk, t, d):
    """heap invariant of definition tapes (introduced by OP_DEF/post, preserved by the frames of every
    op, used here): same configuration as the tape that calls them"""
    import z3
    from pyvc.sym import zint
    mk.assume(zint(d.f['callstack_limit']) == zint(t.f['callstack_limit']))
    for sp in ('s', 'i', 'b'):
        mk.assume(d.f['contracts'].maps[sp] == t.f['contracts'].maps[sp])
        mk.assume(d.f['plugins'].maps[sp] == t.f['plugins'].maps[sp])
    for sp in ('s', 'i'):
        mk.assume(d.f['flags'].maps[sp] == t.f['flags'].maps[sp])
    mk.assume(zint(d.f['pointer']) >= 0)
    mk.assume(zint(d.f['pointer']) <= z3.Length(d.f['data'].e if hasattr(d.f['data'], 'e') else d.f['data']))
    mk.assume(zint(d.oid) != zint(t.oid)) if not isinstance(d.oid, int) else None


@contract('functions.OP_CALL')
class OP_CALL_c:
    """'Read the next byte from the tape as the definition number; call run_tape passing that
    definition tape, the stack, and the cache.'  C07: ScriptExecutionError unless callstack_count <
    callstack_limit, and the call is charged; C06: a called function returns only to its caller (no
    RETURN pending afterwards) and the definition tape's position is restored on every exit."""
    extends = OPC_WEAK        # a definition shares the flags dict of the script that defined it
    modifies = ALL
    sites = {'run_tape': site_config}
    cases = [('self', call_case_self), ('shared-flags', call_case_shared_flags), ('distinct', call_case_distinct)]

    def requires(tape, stack, cache):
        return flags_complete(tape) + defs_ok(tape)

    def ensures(old, tape, stack, cache, result, raised, subtape, init_pointer):
        return [
            ('returns-to-caller', implies(raised is None, clean(cache))),
            ('charged', implies(raised is None, tape.callstack_count > old.tape.callstack_count)),
            ('def-pointer-restored', subtape is None or init_pointer is None or subtape is tape
             or subtape.pointer == init_pointer),
            ('operand', implies(raised is None, tape.pointer == old.tape.pointer + 1)),
        ]


# ------------------------------------------------------------------------------------ MERKLEVAL
@contract('functions.OP_MERKLEVAL')
class OP_MERKLEVAL_c:
    requires = requires_complete
    """C04: 'sha256(sha256(script)) xor sha256(sibling) == root, EQUAL_VERIFY, then EVAL': with stack
    [..., h, s] and operand root: ScriptExecutionError, nothing evaluated, unless
    xor(sha256(sha256(s)), sha256(h)) == root; otherwise continues as OP_EVAL(s) on [...]."""
    extends = OPCK
    modifies = ('tape.pointer', 'stack.deque', 'cache')
    sites = {'run_tape': site_config}

    def spec(tape, stack, cache):
        root = tape.read(32)
        if len(stack.deque) < 2:
            raise AnyError                      # "rejected with an error": the property does not name the class
        s = stack.get()
        h = stack.get()
        # the instruction sequence holds one item more than it found (OP_DUP) and pushes 32-byte digests
        if len(stack.deque) + 3 > stack.max_items or stack.max_item_size < 32:
            raise AnyError
        # operand order as OP_XOR takes them (xor is commutative; the contract of `xor` is stated on its
        # arguments in order); both digests are 32 bytes, so OP_XOR's zero padding adds nothing
        a = sha256(h)
        b = sha256(sha256(s))
        n = imax(len(a), len(b))
        if xor(padded(a, n), padded(b, n)) != root:
            raise AnyError
        stack.put(s)
        spec_eval(tape, stack, cache)


def check_room(stack, n):
    """the instruction sequence pushes up to n further 32-byte items"""
    if len(stack.deque) + n > stack.max_items or stack.max_item_size < 32:
        raise ScriptExecutionError


# -------------------------------------------------------------------------------------- TAPROOT
@contract('functions.OP_TAPROOT')
class OP_TAPROOT_c:
    """C05: 'a witness holding (script, key) causes the script to run exactly when that pair recomputes
    to the root; otherwise the verdict is false and no instruction of the supplied script executes';
    'a witness holding a signature succeeds exactly when the signature is valid under the root as
    public key with permitted flags'.  root must be 32 bytes (ScriptExecutionError)."""
    extends = OPCK
    modifies = ('tape.pointer', 'stack.deque', 'cache')
    sites = {'run_tape': site_config}

    def requires(tape, stack, cache):
        return flags_complete(tape) + defs_ok(tape)

    def spec(tape, stack, cache):
        allowed = tape.read(1)
        root = stack.get()
        if len(root) != 32:
            raise ScriptExecutionError
        if len(stack.deque) == 0:
            raise IndexError
        if len(stack.deque[len(stack.deque) - 1]) == 32:
            pubkey = stack.get()
            script = stack.get()
            scalar = clamp_scalar(sha256(pubkey + sha256(script)), False)
            point = aggregate_points((derive_point_from_scalar(scalar), pubkey))
            if point != root:
                stack.put(b'\x00')
            else:
                stack.put(script)
                spec_eval(tape, stack, cache)
        else:
            stack.put(root)
            spec_check_sig(Tape(allowed, plugins=tape.plugins), stack, cache)


# ------------------------------------------------------------------------- run_script / run_auth_scripts
def has_returned(cache_vals):
    return 'returned' in cache_vals


def embedder_ok(cache_vals, contracts, plugins):
    """valid embedder input: message parts are bytes, plugin scopes are lists, no interpreter control
    key is supplied (excluded: a caller-supplied 'returned' entry -- the interpreter's own flag lives in
    the str namespace, see C08 finding D5)"""
    return sigfields_ok(cache_vals) + [
        ('no-returned', 'returned' not in cache_vals),
        ('plugins.sigext.list', is_list_or_absent(plugins, 'signature_extensions')),
        ('plugins.ctv.list', is_list_or_absent(plugins, 'check_template')),
    ]


def registries_ok(G_plugins):
    return [('registry.sigext.list', is_list_or_absent(G_plugins, 'signature_extensions')),
            ('registry.ctv.list', is_list_or_absent(G_plugins, 'check_template'))]


@contract('functions.run_script')
class run_script_c:
    """'Run the given script byte code. Returns a tape, stack, and dict.'  C19: contracts and plugins
    are the registry contents overlaid with the arguments, in fresh dicts; the caller's dictionaries are
    never modified (frame).  C07: limits from 1 upward."""
    params = {'script': 'bytes', 'cache_vals': 'dict', 'contracts': 'dict', 'additional_flags': 'dict',
              'plugins': 'dict', 'stack_max_items': 'int', 'stack_max_item_size': 'int', 'callstack_limit': 'int'}
    globals = {'_contracts': 'dict', '_plugins': 'dict[list]'}
    modifies = ()
    raises = (BaseException,)
    returns = ('tuple', 'Tape', 'Stack', 'Cache')

    def requires(script, cache_vals, contracts, additional_flags, plugins, stack_max_items, stack_max_item_size,
                 callstack_limit, G_plugins):
        return embedder_ok(cache_vals, contracts, plugins) + registries_ok(G_plugins) + \
            flags_typed_after(None, additional_flags) + [
            ('limits', stack_max_items >= 1 and stack_max_item_size >= 1 and callstack_limit >= 1)]

    def ensures(old, script, cache_vals, contracts, additional_flags, plugins, result, raised, G_plugins, G_contracts,
                tape, stack, cache):
        return [
            ('!result', implies(raised is None, lambda: result[0] is tape and result[1] is stack and result[2] is cache)),
            ('terminated', implies(raised is None, lambda: result[0].pointer == len(result[0].data)
                                   and result[0].data == script)),
            ('limits', implies(raised is None, lambda: result[1].max_items == old.stack_max_items
                               and result[1].max_item_size == old.stack_max_item_size
                               and result[0].callstack_limit == old.callstack_limit)),
            ('stack_ok', implies(raised is None, lambda: run_script_stack_ok(result[1]))),
            ('cache_ok', implies(raised is None, lambda: run_script_cache_ok(result[2]))),
            ('defs_ok', implies(raised is None, lambda: all_values_refs(result[0].definitions))),
            ('plugins_ok', implies(raised is None, lambda: is_list_or_absent(result[0].plugins, 'signature_extensions')
                                   and is_list_or_absent(result[0].plugins, 'check_template'))),
            ('registry.contracts', implies(raised is None,
                                           lambda: dict_same(result[0].contracts, {**G_contracts, **contracts}))),
            ('registry.plugins', implies(raised is None,
                                         lambda: dict_same(result[0].plugins, {**G_plugins, **plugins}))),
            ('!fresh.cache', cache is None or cache is not cache_vals),
            ('!fresh.contracts', tape is None or (tape.contracts is not contracts and tape.contracts is not G_contracts)),
            ('!fresh.plugins', tape is None or (tape.plugins is not plugins and tape.plugins is not G_plugins)),
        ]


def run_script_stack_ok(stack):
    r = True
    for label, c in stack_ok(stack):
        r = r and c
    return r


def run_script_cache_ok(cache):
    r = True
    for label, c in sigfields_ok(cache):
        r = r and c
    return r


def scripts_case(n):
    def f(mk, base):
        base['scripts'] = [mk.bytes(f'script{i}') for i in range(n)]
        return base
    return f


@contract('functions.run_auth_scripts')
class run_auth_scripts_c:
    """C01: 'returns True exactly when every script in the list, executed in order on one shared stack
    and cache, runs from its first instruction to its own end (or its own explicit return) without
    raising, and the stack then holds exactly one item equal to 0xff; in every other case it returns
    False, and it never raises.'  Each script is handed to run_tape, whose contract REQUIRES that no
    RETURN is pending: that call-site obligation is what forbids a witness to truncate the lock.
    Lists of 1..4 scripts (the property's own bound)."""
    params = {'scripts': 'list[bytes]', 'cache_vals': 'dict', 'contracts': 'dict', 'plugins': 'dict',
              'stack_max_items': 'int', 'stack_max_item_size': 'int', 'callstack_limit': 'int'}
    globals = {'_contracts': 'dict', '_plugins': 'dict[list]'}
    modifies = ()
    # quick: lists of 1..3 scripts; thorough: 1..4 (the property's bound)
    cases = [(f'{n}-scripts', scripts_case(n))
             for n in ((1, 2, 3, 4) if os.environ.get('VERIF_TIER_EFFECTIVE') == 'thorough' else (1, 2, 3))]

    def requires(scripts, cache_vals, contracts, plugins, stack_max_items, stack_max_item_size, callstack_limit,
                 G_plugins):
        return embedder_ok(cache_vals, contracts, plugins) + registries_ok(G_plugins) + [
            ('limits', stack_max_items >= 1 and stack_max_item_size >= 1 and callstack_limit >= 1)]

    # C19: every script of the list runs with exactly the active extensions: the registry contents
    # overlaid with the caller's arguments (as run_script's contract states for the first script)
    def site_run_tape(callee, arg_plugins, arg_contracts, G_plugins, G_contracts):
        return [('registry.plugins', dict_same(callee.tape.plugins, {**G_plugins, **arg_plugins})),
                ('registry.contracts', dict_same(callee.tape.contracts, {**G_contracts, **arg_contracts}))]
    sites = {'run_tape': site_run_tape}

    def ensures(old, scripts, result, raised, item, stack):
        return [
            ('never-raises', raised is None),
            ('boolean', result is True or result is False),
            ('true-means-single-ff', implies(result is True, lambda: item == b'\xff' and len(stack.deque) == 0)),
        ]

; obligation classes.Stack.put/refine/outcome
; benchmark generated from python API
(set-info :status unknown)
(declare-sort F 0)
(declare-datatypes ((Val 0)) (((absent) (vnone) (vbool (b Bool)) (vint (i Int)) (vbytes (y (Seq (_ BitVec 8)))) (vstr (s String)) (vfloat (f F)) (vblist (la (Array Int (Seq (_ BitVec 8)))) (ll Int) (lt Bool)) (vref (r Int)) (vopq (o Int)))))
(declare-fun self_len () Int)
(declare-fun item () Val)
(declare-fun self_max_items () Int)
(declare-fun self_max_item_size () Int)
(declare-fun self_arr () (Array Int (Seq (_ BitVec 8))))
(declare-fun item () (Seq (_ BitVec 8)))
(assert
 (>= self_len 0))
(assert
 (let (($x155 ((_ is absent ) item)))
 (not $x155)))
(assert
 (let (($x157 ((_ is vref ) item)))
 (not $x157)))
(assert
 (let (($x163 (<= self_len self_max_items)))
 (let (($x160 (<= 0 self_len)))
 (and $x160 $x163))))
(assert
 (= self_max_items self_max_items))
(assert
 (forall ((q!30 Int) )(=> (and (>= q!30 0) (< q!30 self_len)) (<= (seq.len (select self_arr q!30)) self_max_item_size)))
 )
(assert
 (let ((?x257 (seq.len item)))
 (let (($x251 (<= ?x257 self_max_item_size)))
 (not $x251))))
(assert
 (not true))
(check-sat)

; obligation functions.run_plugins/post/sigfield5.bytes
; benchmark generated from python API
(set-info :status unknown)
(declare-sort F 0)
(declare-datatypes ((Val 0)) (((absent) (vnone) (vbool (b Bool)) (vint (i Int)) (vbytes (y (Seq (_ BitVec 8)))) (vstr (s String)) (vfloat (f F)) (vblist (la (Array Int (Seq (_ BitVec 8)))) (ll Int) (lt Bool)) (vref (r Int)) (vopq (o Int)))))
(declare-fun stack_len () Int)
(declare-fun scope () String)
(declare-fun tape_plugins_s () (Array String Val))
(declare-fun cache_s () (Array String Val))
(assert
 (>= stack_len 0))
(assert
 (let ((?x25153 (select tape_plugins_s scope)))
 (let (($x23161 (and (distinct ?x25153 absent) true)))
 (not $x23161))))
(assert
 (let ((?x1136 (select cache_s "sigfield5")))
(let (($x1138 ((_ is vbytes ) ?x1136)))
(let (($x1137 ((_ is absent ) ?x1136)))
(let (($x2565 (or $x1137 $x1138)))
(not $x2565))))))
(check-sat)

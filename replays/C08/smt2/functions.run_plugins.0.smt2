; obligation functions.run_plugins/post/stack.count
; benchmark generated from python API
(set-info :status unknown)
(declare-sort F 0)
(declare-datatypes ((Val 0)) (((absent) (vnone) (vbool (b Bool)) (vint (i Int)) (vbytes (y (Seq (_ BitVec 8)))) (vstr (s String)) (vfloat (f F)) (vblist (la (Array Int (Seq (_ BitVec 8)))) (ll Int) (lt Bool)) (vref (r Int)) (vopq (o Int)))))
(declare-fun stack_len () Int)
(declare-fun scope () String)
(declare-fun tape_plugins_s () (Array String Val))
(declare-fun stack_max_items () Int)
(assert
 (>= stack_len 0))
(assert
 (let ((?x25153 (select tape_plugins_s scope)))
 (let (($x23161 (and (distinct ?x25153 absent) true)))
 (not $x23161))))
(assert
 (let (($x1460 (<= stack_len stack_max_items)))
(let (($x1583 (<= 0 stack_len)))
(let (($x2559 (and $x1583 $x1460)))
(not $x2559)))))
(check-sat)

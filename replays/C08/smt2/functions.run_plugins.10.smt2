; obligation functions.run_plugins/post/sigfield8.bytes
; benchmark generated from python API
(set-info :status unknown)
(declare-sort F 0)
(declare-datatypes ((Val 0)) (((absent) (vnone) (vbool (b Bool)) (vint (i Int)) (vbytes (y (Seq (_ BitVec 8)))) (vstr (s String)) (vfloat (f F)) (vblist (la (Array Int (Seq (_ BitVec 8)))) (ll Int) (lt Bool)) (vref (r Int)) (vopq (o Int)))))
(declare-fun stack_len () Int)
(declare-fun scope () String)
(declare-fun tape_plugins_s () (Array String Val))
(declare-fun cache_s () (Array String Val))
(assert
 (>= stack_len 0))
(assert
 (let ((?x25153 (select tape_plugins_s scope)))
 (let (($x23161 (and (distinct ?x25153 absent) true)))
 (not $x23161))))
(assert
 (let ((?x274 (select cache_s "sigfield8")))
(let (($x703 ((_ is vbytes ) ?x274)))
(let (($x142 ((_ is absent ) ?x274)))
(let (($x776 (or $x142 $x703)))
(not $x776))))))
(check-sat)

; obligation functions.run_plugins/post/sigfield6.bytes
; benchmark generated from python API
(set-info :status unknown)
(declare-sort F 0)
(declare-datatypes ((Val 0)) (((absent) (vnone) (vbool (b Bool)) (vint (i Int)) (vbytes (y (Seq (_ BitVec 8)))) (vstr (s String)) (vfloat (f F)) (vblist (la (Array Int (Seq (_ BitVec 8)))) (ll Int) (lt Bool)) (vref (r Int)) (vopq (o Int)))))
(declare-fun stack_len () Int)
(declare-fun scope () String)
(declare-fun tape_plugins_s () (Array String Val))
(declare-fun cache_s () (Array String Val))
(assert
 (>= stack_len 0))
(assert
 (let ((?x25153 (select tape_plugins_s scope)))
 (let (($x23161 (and (distinct ?x25153 absent) true)))
 (not $x23161))))
(assert
 (let ((?x1099 (select cache_s "sigfield6")))
(let (($x3474 ((_ is vbytes ) ?x1099)))
(let (($x1133 ((_ is absent ) ?x1099)))
(let (($x1135 (or $x1133 $x3474)))
(not $x1135))))))
(check-sat)

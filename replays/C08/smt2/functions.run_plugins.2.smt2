; obligation functions.run_plugins/post/stack.item-size
; benchmark generated from python API
(set-info :status unknown)
(declare-sort F 0)
(declare-datatypes ((Val 0)) (((absent) (vnone) (vbool (b Bool)) (vint (i Int)) (vbytes (y (Seq (_ BitVec 8)))) (vstr (s String)) (vfloat (f F)) (vblist (la (Array Int (Seq (_ BitVec 8)))) (ll Int) (lt Bool)) (vref (r Int)) (vopq (o Int)))))
(declare-fun stack_len () Int)
(declare-fun scope () String)
(declare-fun tape_plugins_s () (Array String Val))
(declare-fun stack_max_item_size () Int)
(declare-fun stack_arr () (Array Int (Seq (_ BitVec 8))))
(assert
 (>= stack_len 0))
(assert
 (let ((?x25153 (select tape_plugins_s scope)))
 (let (($x23161 (and (distinct ?x25153 absent) true)))
 (not $x23161))))
(assert
 (let (($x6730 (forall ((q!4823 Int) )(let ((?x2060 (select stack_arr q!4823)))
(let ((?x2269 (seq.len ?x2060)))
(let (($x2517 (<= ?x2269 stack_max_item_size)))
(=> (and (>= q!4823 0) (< q!4823 stack_len)) $x2517)))))
))
(not $x6730)))
(check-sat)

; obligation reset_signature_extensions_c.spec/pre[reset_plugins#0]/registry.list
; benchmark generated from python API
(set-info :status unknown)
(declare-sort F 0)
(declare-datatypes ((Val 0)) (((absent) (vnone) (vbool (b Bool)) (vint (i Int)) (vbytes (y (Seq (_ BitVec 8)))) (vstr (s String)) (vfloat (f F)) (vblist (la (Array Int (Seq (_ BitVec 8)))) (ll Int) (lt Bool)) (vref (r Int)) (vopq (o Int)))))
(declare-fun _plugins_s () (Array String Val))
(declare-fun ref_len (Int) Int)
(declare-fun |reset_plugins#0.G_plugins_s| () (Array String Val))
(assert
 (let ((?x129 (select _plugins_s "signature_extensions")))
 (let (($x138 ((_ is vref ) ?x129)))
 (let (($x130 ((_ is absent ) ?x129)))
 (or $x130 $x138)))))
(assert
 (let ((?x129 (select _plugins_s "signature_extensions")))
 (let (($x138 ((_ is vref ) ?x129)))
 (let (($x130 ((_ is absent ) ?x129)))
 (or $x130 $x138)))))
(assert
 (let ((?x212 (select |reset_plugins#0.G_plugins_s| "signature_extensions")))
 (let ((?x475 (r ?x212)))
 (let ((?x478 (ref_len ?x475)))
 (>= ?x478 0)))))
(assert
 (let ((?x212 (select |reset_plugins#0.G_plugins_s| "signature_extensions")))
(let (($x474 ((_ is vref ) ?x212)))
(let (($x482 ((_ is absent ) ?x212)))
(let (($x476 (or $x482 $x474)))
(not $x476))))))
(check-sat)

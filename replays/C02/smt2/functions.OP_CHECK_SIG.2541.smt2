; obligation functions.OP_CHECK_SIG/refine/outcome
; benchmark generated from python API
(set-info :status unknown)
(declare-sort F 0)
(declare-datatypes ((Val 0)) (((absent) (vnone) (vbool (b Bool)) (vint (i Int)) (vbytes (y (Seq (_ BitVec 8)))) (vstr (s String)) (vfloat (f F)) (vblist (la (Array Int (Seq (_ BitVec 8)))) (ll Int) (lt Bool)) (vref (r Int)) (vopq (o Int)))))
(declare-fun stack_len () Int)
(declare-fun tape_plugins_s () (Array String Val))
(declare-fun tape_data () (Seq (_ BitVec 8)))
(declare-fun tape_pointer () Int)
(declare-fun stack_max_items () Int)
(declare-fun stack_max_item_size () Int)
(declare-fun stack_arr () (Array Int (Seq (_ BitVec 8))))
(declare-fun cache_s () (Array String Val))
(declare-fun tape_flags_i () (Array Int Val))
(declare-fun |run_sig_extensions#0.stack.deque_len| () Int)
(declare-fun |outcome_run_sig_extensions#0| () Int)
(declare-fun |run_sig_extensions#0.stack.deque_arr| () (Array Int (Seq (_ BitVec 8))))
(declare-fun |run_sig_extensions#0.cache_s| () (Array String Val))
(declare-fun |run_sig_extensions#0.cache_i| () (Array Int Val))
(declare-fun cache_i () (Array Int Val))
(declare-fun |run_sig_extensions#0.cache_b| () (Array (Seq (_ BitVec 8)) Val))
(declare-fun cache_b () (Array (Seq (_ BitVec 8)) Val))
(declare-fun ref_len (Int) Int)
(assert
 (>= stack_len 0))
(assert
 (let ((?x175 (select tape_plugins_s "signature_extensions")))
 (let (($x177 ((_ is vref ) ?x175)))
 (let (($x176 ((_ is absent ) ?x175)))
 (or $x176 $x177)))))
(assert
 (let ((?x38 (seq.len tape_data)))
 (let (($x183 (<= tape_pointer ?x38)))
 (let (($x180 (<= 0 tape_pointer)))
 (and $x180 $x183)))))
(assert
 (let (($x179 (<= stack_len stack_max_items)))
 (let (($x185 (<= 0 stack_len)))
 (and $x185 $x179))))
(assert
 (= stack_max_items stack_max_items))
(assert
 (forall ((q!2627 Int) )(let (($x33 (>= q!2627 0)))
 (let (($x200 (and $x33 (< q!2627 stack_len))))
 (=> $x200 (<= (seq.len (select stack_arr q!2627)) stack_max_item_size)))))
 )
(assert
 (let ((?x189 (select cache_s "returned")))
 (let (($x190 (and (distinct ?x189 absent) true)))
 (not $x190))))
(assert
 (let ((?x193 (select cache_s "sigfield1")))
 (let (($x195 ((_ is vbytes ) ?x193)))
 (let (($x194 ((_ is absent ) ?x193)))
 (or $x194 $x195)))))
(assert
 (let ((?x205 (select cache_s "sigfield2")))
 (let (($x207 ((_ is vbytes ) ?x205)))
 (let (($x206 ((_ is absent ) ?x205)))
 (or $x206 $x207)))))
(assert
 (let ((?x210 (select cache_s "sigfield3")))
 (let (($x212 ((_ is vbytes ) ?x210)))
 (let (($x211 ((_ is absent ) ?x210)))
 (or $x211 $x212)))))
(assert
 (let ((?x215 (select cache_s "sigfield4")))
 (let (($x217 ((_ is vbytes ) ?x215)))
 (let (($x216 ((_ is absent ) ?x215)))
 (or $x216 $x217)))))
(assert
 (let ((?x220 (select cache_s "sigfield5")))
 (let (($x222 ((_ is vbytes ) ?x220)))
 (let (($x221 ((_ is absent ) ?x220)))
 (or $x221 $x222)))))
(assert
 (let ((?x225 (select cache_s "sigfield6")))
 (let (($x227 ((_ is vbytes ) ?x225)))
 (let (($x226 ((_ is absent ) ?x225)))
 (or $x226 $x227)))))
(assert
 (let ((?x230 (select cache_s "sigfield7")))
 (let (($x232 ((_ is vbytes ) ?x230)))
 (let (($x231 ((_ is absent ) ?x230)))
 (or $x231 $x232)))))
(assert
 (let ((?x235 (select cache_s "sigfield8")))
 (let (($x237 ((_ is vbytes ) ?x235)))
 (let (($x236 ((_ is absent ) ?x235)))
 (or $x236 $x237)))))
(assert
 (let ((?x239 (select tape_flags_i 0)))
 (let (($x241 ((_ is vbool ) ?x239)))
 (let (($x240 ((_ is absent ) ?x239)))
 (or $x240 $x241)))))
(assert
 (let ((?x243 (select tape_flags_i 1)))
 (let (($x245 ((_ is vbool ) ?x243)))
 (let (($x244 ((_ is absent ) ?x243)))
 (or $x244 $x245)))))
(assert
 (let ((?x247 (select tape_flags_i 2)))
 (let (($x249 ((_ is vbool ) ?x247)))
 (let (($x248 ((_ is absent ) ?x247)))
 (or $x248 $x249)))))
(assert
 (let ((?x252 (select tape_flags_i 3)))
 (let (($x254 ((_ is vbool ) ?x252)))
 (let (($x253 ((_ is absent ) ?x252)))
 (or $x253 $x254)))))
(assert
 (let ((?x257 (select tape_flags_i 4)))
 (let (($x259 ((_ is vbool ) ?x257)))
 (let (($x258 ((_ is absent ) ?x257)))
 (or $x258 $x259)))))
(assert
 (let ((?x262 (select tape_flags_i 5)))
 (let (($x264 ((_ is vbool ) ?x262)))
 (let (($x263 ((_ is absent ) ?x262)))
 (or $x263 $x264)))))
(assert
 (let ((?x267 (select tape_flags_i 6)))
 (let (($x269 ((_ is vbool ) ?x267)))
 (let (($x268 ((_ is absent ) ?x267)))
 (or $x268 $x269)))))
(assert
 (let ((?x272 (select tape_flags_i 7)))
 (let (($x274 ((_ is vbool ) ?x272)))
 (let (($x273 ((_ is absent ) ?x272)))
 (or $x273 $x274)))))
(assert
 (let ((?x276 (select tape_flags_i 8)))
 (let (($x278 ((_ is vbool ) ?x276)))
 (let (($x277 ((_ is absent ) ?x276)))
 (or $x277 $x278)))))
(assert
 (let ((?x281 (select tape_flags_i 9)))
 (let (($x283 ((_ is vbool ) ?x281)))
 (let (($x282 ((_ is absent ) ?x281)))
 (or $x282 $x283)))))
(assert
 (let ((?x286 (select tape_flags_i 10)))
 (let (($x288 ((_ is vbool ) ?x286)))
 (let (($x287 ((_ is absent ) ?x286)))
 (or $x287 $x288)))))
(assert
 (let ((?x175 (select tape_plugins_s "signature_extensions")))
 (let (($x177 ((_ is vref ) ?x175)))
 (let (($x176 ((_ is absent ) ?x175)))
 (or $x176 $x177)))))
(assert
 (let ((?x291 (select tape_plugins_s "check_template")))
 (let (($x293 ((_ is vref ) ?x291)))
 (let (($x292 ((_ is absent ) ?x291)))
 (or $x292 $x293)))))
(assert
 (let (($x179 (<= stack_len stack_max_items)))
 (let (($x185 (<= 0 stack_len)))
 (and $x185 $x179))))
(assert
 (= stack_max_items stack_max_items))
(assert
 (forall ((q!2628 Int) )(let (($x33 (>= q!2628 0)))
 (let (($x200 (and $x33 (< q!2628 stack_len))))
 (=> $x200 (<= (seq.len (select stack_arr q!2628)) stack_max_item_size)))))
 )
(assert
 (let ((?x193 (select cache_s "sigfield1")))
 (let (($x195 ((_ is vbytes ) ?x193)))
 (let (($x194 ((_ is absent ) ?x193)))
 (or $x194 $x195)))))
(assert
 (let ((?x205 (select cache_s "sigfield2")))
 (let (($x207 ((_ is vbytes ) ?x205)))
 (let (($x206 ((_ is absent ) ?x205)))
 (or $x206 $x207)))))
(assert
 (let ((?x210 (select cache_s "sigfield3")))
 (let (($x212 ((_ is vbytes ) ?x210)))
 (let (($x211 ((_ is absent ) ?x210)))
 (or $x211 $x212)))))
(assert
 (let ((?x215 (select cache_s "sigfield4")))
 (let (($x217 ((_ is vbytes ) ?x215)))
 (let (($x216 ((_ is absent ) ?x215)))
 (or $x216 $x217)))))
(assert
 (let ((?x220 (select cache_s "sigfield5")))
 (let (($x222 ((_ is vbytes ) ?x220)))
 (let (($x221 ((_ is absent ) ?x220)))
 (or $x221 $x222)))))
(assert
 (let ((?x225 (select cache_s "sigfield6")))
 (let (($x227 ((_ is vbytes ) ?x225)))
 (let (($x226 ((_ is absent ) ?x225)))
 (or $x226 $x227)))))
(assert
 (let ((?x230 (select cache_s "sigfield7")))
 (let (($x232 ((_ is vbytes ) ?x230)))
 (let (($x231 ((_ is absent ) ?x230)))
 (or $x231 $x232)))))
(assert
 (let ((?x235 (select cache_s "sigfield8")))
 (let (($x237 ((_ is vbytes ) ?x235)))
 (let (($x236 ((_ is absent ) ?x235)))
 (or $x236 $x237)))))
(assert
 (let ((?x175 (select tape_plugins_s "signature_extensions")))
 (let (($x177 ((_ is vref ) ?x175)))
 (let (($x176 ((_ is absent ) ?x175)))
 (or $x176 $x177)))))
(assert
 (>= |run_sig_extensions#0.stack.deque_len| 0))
(assert
 (= |outcome_run_sig_extensions#0| 0))
(assert
 (let (($x1126 (<= |run_sig_extensions#0.stack.deque_len| stack_max_items)))
 (let (($x1120 (<= 0 |run_sig_extensions#0.stack.deque_len|)))
 (and $x1120 $x1126))))
(assert
 (= stack_max_items stack_max_items))
(assert
 (forall ((q!2629 Int) )(let ((?x1160 (select |run_sig_extensions#0.stack.deque_arr| q!2629)))
 (let ((?x1161 (seq.len ?x1160)))
 (let (($x1138 (<= ?x1161 stack_max_item_size)))
 (=> (and (>= q!2629 0) (< q!2629 |run_sig_extensions#0.stack.deque_len|)) $x1138)))))
 )
(assert
 (let ((?x1116 (select |run_sig_extensions#0.cache_s| "sigfield1")))
 (let (($x1130 ((_ is vbytes ) ?x1116)))
 (let (($x1129 ((_ is absent ) ?x1116)))
 (or $x1129 $x1130)))))
(assert
 (let ((?x1154 (select |run_sig_extensions#0.cache_s| "sigfield2")))
 (let (($x1137 ((_ is vbytes ) ?x1154)))
 (let (($x1157 ((_ is absent ) ?x1154)))
 (or $x1157 $x1137)))))
(assert
 (let ((?x1163 (select |run_sig_extensions#0.cache_s| "sigfield3")))
 (let (($x1159 ((_ is vbytes ) ?x1163)))
 (let (($x1156 ((_ is absent ) ?x1163)))
 (or $x1156 $x1159)))))
(assert
 (let ((?x1164 (select |run_sig_extensions#0.cache_s| "sigfield4")))
 (let (($x1144 ((_ is vbytes ) ?x1164)))
 (let (($x1148 ((_ is absent ) ?x1164)))
 (or $x1148 $x1144)))))
(assert
 (let ((?x1155 (select |run_sig_extensions#0.cache_s| "sigfield5")))
 (let (($x1146 ((_ is vbytes ) ?x1155)))
 (let (($x1139 ((_ is absent ) ?x1155)))
 (or $x1139 $x1146)))))
(assert
 (let ((?x1151 (select |run_sig_extensions#0.cache_s| "sigfield6")))
 (let (($x1140 ((_ is vbytes ) ?x1151)))
 (let (($x1143 ((_ is absent ) ?x1151)))
 (or $x1143 $x1140)))))
(assert
 (let ((?x1153 (select |run_sig_extensions#0.cache_s| "sigfield7")))
 (let (($x1149 ((_ is vbytes ) ?x1153)))
 (let (($x1147 ((_ is absent ) ?x1153)))
 (or $x1147 $x1149)))))
(assert
 (let ((?x1166 (select |run_sig_extensions#0.cache_s| "sigfield8")))
 (let (($x1168 ((_ is vbytes ) ?x1166)))
 (let (($x1167 ((_ is absent ) ?x1166)))
 (or $x1167 $x1168)))))
(assert
 (let ((?x189 (select cache_s "returned")))
 (let (($x190 (and (distinct ?x189 absent) true)))
 (let (($x191 (not $x190)))
 (let ((?x1170 (select |run_sig_extensions#0.cache_s| "returned")))
 (let (($x1171 (and (distinct ?x1170 absent) true)))
 (let (($x1172 (not $x1171)))
 (= $x1172 $x191))))))))
(assert
 (let (($x1183 (= cache_i |run_sig_extensions#0.cache_i|)))
 (let (($x1182 (= cache_s |run_sig_extensions#0.cache_s|)))
 (let (($x1181 (= cache_b |run_sig_extensions#0.cache_b|)))
 (let (($x1184 (and $x1181 $x1182 $x1183)))
 (let (($x1962 (forall ((q!2630 Int) )(let ((?x1160 (select |run_sig_extensions#0.stack.deque_arr| q!2630)))
 (let ((?x196 (select stack_arr q!2630)))
 (let (($x1187 (= ?x196 ?x1160)))
 (let (($x33 (>= q!2630 0)))
 (let (($x200 (and $x33 (< q!2630 stack_len))))
 (=> $x200 $x1187)))))))
 ))
 (let (($x1179 (= stack_len |run_sig_extensions#0.stack.deque_len|)))
 (let (($x16945 (and $x1179 $x1962)))
 (let ((?x175 (select tape_plugins_s "signature_extensions")))
 (let ((?x1110 (r ?x175)))
 (let ((?x1111 (ref_len ?x1110)))
 (let (($x177 ((_ is vref ) ?x175)))
 (let ((?x1112 (ite $x177 ?x1111 0)))
 (let (($x1113 (= 0 ?x1112)))
 (=> $x1113 (and $x16945 $x1184))))))))))))))))
(assert
 (let ((?x38 (seq.len tape_data)))
 (let (($x183 (<= tape_pointer ?x38)))
 (let (($x180 (<= 0 tape_pointer)))
 (and $x180 $x183)))))
(assert
 (let ((?x38 (seq.len tape_data)))
 (let ((?x1226 (+ tape_pointer 1)))
 (let (($x1250 (> ?x1226 ?x38)))
 (not $x1250)))))
(assert
 (let ((?x38 (seq.len tape_data)))
 (let ((?x1226 (+ tape_pointer 1)))
 (let (($x1520 (<= ?x1226 ?x38)))
 (let (($x1554 (<= 0 ?x1226)))
 (and $x1554 $x1520))))))
(assert
 (let ((?x1226 (+ tape_pointer 1)))
 (>= ?x1226 tape_pointer)))
(assert
 (let (($x1126 (<= |run_sig_extensions#0.stack.deque_len| stack_max_items)))
 (let (($x1120 (<= 0 |run_sig_extensions#0.stack.deque_len|)))
 (and $x1120 $x1126))))
(assert
 (= stack_max_items stack_max_items))
(assert
 (forall ((q!2631 Int) )(let ((?x1160 (select |run_sig_extensions#0.stack.deque_arr| q!2631)))
 (let ((?x1161 (seq.len ?x1160)))
 (let (($x1138 (<= ?x1161 stack_max_item_size)))
 (=> (and (>= q!2631 0) (< q!2631 |run_sig_extensions#0.stack.deque_len|)) $x1138)))))
 )
(assert
 (let (($x1516 (= 0 |run_sig_extensions#0.stack.deque_len|)))
 (not $x1516)))
(assert
 (> |run_sig_extensions#0.stack.deque_len| 0))
(assert
 (let ((?x1613 (+ (- 1) |run_sig_extensions#0.stack.deque_len|)))
 (let (($x1543 (<= ?x1613 stack_max_items)))
 (let (($x1643 (<= 0 ?x1613)))
 (and $x1643 $x1543)))))
(assert
 (= stack_max_items stack_max_items))
(assert
 (forall ((q!2632 Int) )(let ((?x1160 (select |run_sig_extensions#0.stack.deque_arr| q!2632)))
 (let ((?x1161 (seq.len ?x1160)))
 (let (($x1138 (<= ?x1161 stack_max_item_size)))
 (let (($x33 (>= q!2632 0)))
 (=> (and $x33 (< q!2632 (+ (- 1) |run_sig_extensions#0.stack.deque_len|))) $x1138))))))
 )
(assert
 (let ((?x1613 (+ (- 1) |run_sig_extensions#0.stack.deque_len|)))
 (let ((?x1656 (select |run_sig_extensions#0.stack.deque_arr| ?x1613)))
 (let ((?x1612 (seq.len ?x1656)))
 (<= ?x1612 stack_max_item_size)))))
(assert
 (let ((?x1613 (+ (- 1) |run_sig_extensions#0.stack.deque_len|)))
 (let (($x1543 (<= ?x1613 stack_max_items)))
 (let (($x1643 (<= 0 ?x1613)))
 (and $x1643 $x1543)))))
(assert
 (= stack_max_items stack_max_items))
(assert
 (forall ((q!2633 Int) )(let ((?x1160 (select |run_sig_extensions#0.stack.deque_arr| q!2633)))
 (let ((?x1161 (seq.len ?x1160)))
 (let (($x1138 (<= ?x1161 stack_max_item_size)))
 (let (($x33 (>= q!2633 0)))
 (=> (and $x33 (< q!2633 (+ (- 1) |run_sig_extensions#0.stack.deque_len|))) $x1138))))))
 )
(assert
 (let ((?x1613 (+ (- 1) |run_sig_extensions#0.stack.deque_len|)))
 (let (($x1645 (= 0 ?x1613)))
 (not $x1645))))
(assert
 (let ((?x1613 (+ (- 1) |run_sig_extensions#0.stack.deque_len|)))
 (> ?x1613 0)))
(assert
 (let ((?x1816 (+ (- 2) |run_sig_extensions#0.stack.deque_len|)))
 (let (($x1811 (<= ?x1816 stack_max_items)))
 (let (($x1818 (<= 0 ?x1816)))
 (and $x1818 $x1811)))))
(assert
 (= stack_max_items stack_max_items))
(assert
 (forall ((q!2634 Int) )(let ((?x1160 (select |run_sig_extensions#0.stack.deque_arr| q!2634)))
 (let ((?x1161 (seq.len ?x1160)))
 (let (($x1138 (<= ?x1161 stack_max_item_size)))
 (let (($x33 (>= q!2634 0)))
 (=> (and $x33 (< q!2634 (+ (- 2) |run_sig_extensions#0.stack.deque_len|))) $x1138))))))
 )
(assert
 (let ((?x1816 (+ (- 2) |run_sig_extensions#0.stack.deque_len|)))
 (let ((?x1807 (select |run_sig_extensions#0.stack.deque_arr| ?x1816)))
 (let ((?x1812 (seq.len ?x1807)))
 (<= ?x1812 stack_max_item_size)))))
(assert
 (let ((?x1613 (+ (- 1) |run_sig_extensions#0.stack.deque_len|)))
 (let ((?x1656 (select |run_sig_extensions#0.stack.deque_arr| ?x1613)))
 (let ((?x1612 (seq.len ?x1656)))
 (let (($x1831 (= 32 ?x1612)))
 (or $x1831 false))))))
(assert
 (let ((?x1816 (+ (- 2) |run_sig_extensions#0.stack.deque_len|)))
 (let ((?x1807 (select |run_sig_extensions#0.stack.deque_arr| ?x1816)))
 (let ((?x1812 (seq.len ?x1807)))
 (let (($x1773 (= 65 ?x1812)))
 (let (($x1834 (= 64 ?x1812)))
 (let (($x1832 (or $x1834 $x1773)))
 (not $x1832))))))))
(assert
 (let (($x179 (<= stack_len stack_max_items)))
 (let (($x185 (<= 0 stack_len)))
 (and $x185 $x179))))
(assert
 (= stack_max_items stack_max_items))
(assert
 (forall ((q!2635 Int) )(let (($x33 (>= q!2635 0)))
 (let (($x200 (and $x33 (< q!2635 stack_len))))
 (=> $x200 (<= (seq.len (select stack_arr q!2635)) stack_max_item_size)))))
 )
(assert
 (let ((?x193 (select cache_s "sigfield1")))
 (let (($x195 ((_ is vbytes ) ?x193)))
 (let (($x194 ((_ is absent ) ?x193)))
 (or $x194 $x195)))))
(assert
 (let ((?x205 (select cache_s "sigfield2")))
 (let (($x207 ((_ is vbytes ) ?x205)))
 (let (($x206 ((_ is absent ) ?x205)))
 (or $x206 $x207)))))
(assert
 (let ((?x210 (select cache_s "sigfield3")))
 (let (($x212 ((_ is vbytes ) ?x210)))
 (let (($x211 ((_ is absent ) ?x210)))
 (or $x211 $x212)))))
(assert
 (let ((?x215 (select cache_s "sigfield4")))
 (let (($x217 ((_ is vbytes ) ?x215)))
 (let (($x216 ((_ is absent ) ?x215)))
 (or $x216 $x217)))))
(assert
 (let ((?x220 (select cache_s "sigfield5")))
 (let (($x222 ((_ is vbytes ) ?x220)))
 (let (($x221 ((_ is absent ) ?x220)))
 (or $x221 $x222)))))
(assert
 (let ((?x225 (select cache_s "sigfield6")))
 (let (($x227 ((_ is vbytes ) ?x225)))
 (let (($x226 ((_ is absent ) ?x225)))
 (or $x226 $x227)))))
(assert
 (let ((?x230 (select cache_s "sigfield7")))
 (let (($x232 ((_ is vbytes ) ?x230)))
 (let (($x231 ((_ is absent ) ?x230)))
 (or $x231 $x232)))))
(assert
 (let ((?x235 (select cache_s "sigfield8")))
 (let (($x237 ((_ is vbytes ) ?x235)))
 (let (($x236 ((_ is absent ) ?x235)))
 (or $x236 $x237)))))
(assert
 (let ((?x175 (select tape_plugins_s "signature_extensions")))
 (let (($x177 ((_ is vref ) ?x175)))
 (let (($x176 ((_ is absent ) ?x175)))
 (or $x176 $x177)))))
(assert
 (>= |run_sig_extensions#0.stack.deque_len| 0))
(assert
 (= |outcome_run_sig_extensions#0| 0))
(assert
 (let (($x1126 (<= |run_sig_extensions#0.stack.deque_len| stack_max_items)))
 (let (($x1120 (<= 0 |run_sig_extensions#0.stack.deque_len|)))
 (and $x1120 $x1126))))
(assert
 (= stack_max_items stack_max_items))
(assert
 (forall ((q!2652 Int) )(let ((?x1160 (select |run_sig_extensions#0.stack.deque_arr| q!2652)))
 (let ((?x1161 (seq.len ?x1160)))
 (let (($x1138 (<= ?x1161 stack_max_item_size)))
 (=> (and (>= q!2652 0) (< q!2652 |run_sig_extensions#0.stack.deque_len|)) $x1138)))))
 )
(assert
 (let ((?x1116 (select |run_sig_extensions#0.cache_s| "sigfield1")))
 (let (($x1130 ((_ is vbytes ) ?x1116)))
 (let (($x1129 ((_ is absent ) ?x1116)))
 (or $x1129 $x1130)))))
(assert
 (let ((?x1154 (select |run_sig_extensions#0.cache_s| "sigfield2")))
 (let (($x1137 ((_ is vbytes ) ?x1154)))
 (let (($x1157 ((_ is absent ) ?x1154)))
 (or $x1157 $x1137)))))
(assert
 (let ((?x1163 (select |run_sig_extensions#0.cache_s| "sigfield3")))
 (let (($x1159 ((_ is vbytes ) ?x1163)))
 (let (($x1156 ((_ is absent ) ?x1163)))
 (or $x1156 $x1159)))))
(assert
 (let ((?x1164 (select |run_sig_extensions#0.cache_s| "sigfield4")))
 (let (($x1144 ((_ is vbytes ) ?x1164)))
 (let (($x1148 ((_ is absent ) ?x1164)))
 (or $x1148 $x1144)))))
(assert
 (let ((?x1155 (select |run_sig_extensions#0.cache_s| "sigfield5")))
 (let (($x1146 ((_ is vbytes ) ?x1155)))
 (let (($x1139 ((_ is absent ) ?x1155)))
 (or $x1139 $x1146)))))
(assert
 (let ((?x1151 (select |run_sig_extensions#0.cache_s| "sigfield6")))
 (let (($x1140 ((_ is vbytes ) ?x1151)))
 (let (($x1143 ((_ is absent ) ?x1151)))
 (or $x1143 $x1140)))))
(assert
 (let ((?x1153 (select |run_sig_extensions#0.cache_s| "sigfield7")))
 (let (($x1149 ((_ is vbytes ) ?x1153)))
 (let (($x1147 ((_ is absent ) ?x1153)))
 (or $x1147 $x1149)))))
(assert
 (let ((?x1166 (select |run_sig_extensions#0.cache_s| "sigfield8")))
 (let (($x1168 ((_ is vbytes ) ?x1166)))
 (let (($x1167 ((_ is absent ) ?x1166)))
 (or $x1167 $x1168)))))
(assert
 (let ((?x189 (select cache_s "returned")))
 (let (($x190 (and (distinct ?x189 absent) true)))
 (let (($x191 (not $x190)))
 (let ((?x1170 (select |run_sig_extensions#0.cache_s| "returned")))
 (let (($x1171 (and (distinct ?x1170 absent) true)))
 (let (($x1172 (not $x1171)))
 (= $x1172 $x191))))))))
(assert
 (let (($x1183 (= cache_i |run_sig_extensions#0.cache_i|)))
 (let (($x1182 (= cache_s |run_sig_extensions#0.cache_s|)))
 (let (($x1181 (= cache_b |run_sig_extensions#0.cache_b|)))
 (let (($x1184 (and $x1181 $x1182 $x1183)))
 (let (($x13067 (forall ((q!2653 Int) )(let ((?x1160 (select |run_sig_extensions#0.stack.deque_arr| q!2653)))
 (let ((?x196 (select stack_arr q!2653)))
 (let (($x1187 (= ?x196 ?x1160)))
 (let (($x33 (>= q!2653 0)))
 (let (($x200 (and $x33 (< q!2653 stack_len))))
 (=> $x200 $x1187)))))))
 ))
 (let (($x1179 (= stack_len |run_sig_extensions#0.stack.deque_len|)))
 (let (($x2003 (and $x1179 $x13067)))
 (let ((?x175 (select tape_plugins_s "signature_extensions")))
 (let ((?x1110 (r ?x175)))
 (let ((?x1111 (ref_len ?x1110)))
 (let (($x177 ((_ is vref ) ?x175)))
 (let ((?x1112 (ite $x177 ?x1111 0)))
 (let (($x1113 (= 0 ?x1112)))
 (=> $x1113 (and $x2003 $x1184))))))))))))))))
(assert
 (let ((?x38 (seq.len tape_data)))
 (let (($x183 (<= tape_pointer ?x38)))
 (let (($x180 (<= 0 tape_pointer)))
 (and $x180 $x183)))))
(assert
 (let ((?x38 (seq.len tape_data)))
 (let ((?x1226 (+ tape_pointer 1)))
 (let (($x1250 (> ?x1226 ?x38)))
 (not $x1250)))))
(assert
 (let ((?x38 (seq.len tape_data)))
 (let ((?x1226 (+ tape_pointer 1)))
 (let (($x1520 (<= ?x1226 ?x38)))
 (let (($x1554 (<= 0 ?x1226)))
 (and $x1554 $x1520))))))
(assert
 (let ((?x1226 (+ tape_pointer 1)))
 (>= ?x1226 tape_pointer)))
(assert
 (let (($x1126 (<= |run_sig_extensions#0.stack.deque_len| stack_max_items)))
 (let (($x1120 (<= 0 |run_sig_extensions#0.stack.deque_len|)))
 (and $x1120 $x1126))))
(assert
 (= stack_max_items stack_max_items))
(assert
 (forall ((q!2654 Int) )(let ((?x1160 (select |run_sig_extensions#0.stack.deque_arr| q!2654)))
 (let ((?x1161 (seq.len ?x1160)))
 (let (($x1138 (<= ?x1161 stack_max_item_size)))
 (=> (and (>= q!2654 0) (< q!2654 |run_sig_extensions#0.stack.deque_len|)) $x1138)))))
 )
(assert
 (let (($x1516 (= 0 |run_sig_extensions#0.stack.deque_len|)))
 (not $x1516)))
(assert
 (> |run_sig_extensions#0.stack.deque_len| 0))
(assert
 (let ((?x1613 (+ (- 1) |run_sig_extensions#0.stack.deque_len|)))
 (let (($x1543 (<= ?x1613 stack_max_items)))
 (let (($x1643 (<= 0 ?x1613)))
 (and $x1643 $x1543)))))
(assert
 (= stack_max_items stack_max_items))
(assert
 (forall ((q!2655 Int) )(let ((?x1160 (select |run_sig_extensions#0.stack.deque_arr| q!2655)))
 (let ((?x1161 (seq.len ?x1160)))
 (let (($x1138 (<= ?x1161 stack_max_item_size)))
 (let (($x33 (>= q!2655 0)))
 (=> (and $x33 (< q!2655 (+ (- 1) |run_sig_extensions#0.stack.deque_len|))) $x1138))))))
 )
(assert
 (let ((?x1613 (+ (- 1) |run_sig_extensions#0.stack.deque_len|)))
 (let ((?x1656 (select |run_sig_extensions#0.stack.deque_arr| ?x1613)))
 (let ((?x1612 (seq.len ?x1656)))
 (<= ?x1612 stack_max_item_size)))))
(assert
 (let ((?x1613 (+ (- 1) |run_sig_extensions#0.stack.deque_len|)))
 (let (($x1543 (<= ?x1613 stack_max_items)))
 (let (($x1643 (<= 0 ?x1613)))
 (and $x1643 $x1543)))))
(assert
 (= stack_max_items stack_max_items))
(assert
 (forall ((q!2656 Int) )(let ((?x1160 (select |run_sig_extensions#0.stack.deque_arr| q!2656)))
 (let ((?x1161 (seq.len ?x1160)))
 (let (($x1138 (<= ?x1161 stack_max_item_size)))
 (let (($x33 (>= q!2656 0)))
 (=> (and $x33 (< q!2656 (+ (- 1) |run_sig_extensions#0.stack.deque_len|))) $x1138))))))
 )
(assert
 (let ((?x1613 (+ (- 1) |run_sig_extensions#0.stack.deque_len|)))
 (let (($x1645 (= 0 ?x1613)))
 (not $x1645))))
(assert
 (let ((?x1613 (+ (- 1) |run_sig_extensions#0.stack.deque_len|)))
 (> ?x1613 0)))
(assert
 (let ((?x1816 (+ (- 2) |run_sig_extensions#0.stack.deque_len|)))
 (let (($x1811 (<= ?x1816 stack_max_items)))
 (let (($x1818 (<= 0 ?x1816)))
 (and $x1818 $x1811)))))
(assert
 (= stack_max_items stack_max_items))
(assert
 (forall ((q!2657 Int) )(let ((?x1160 (select |run_sig_extensions#0.stack.deque_arr| q!2657)))
 (let ((?x1161 (seq.len ?x1160)))
 (let (($x1138 (<= ?x1161 stack_max_item_size)))
 (let (($x33 (>= q!2657 0)))
 (=> (and $x33 (< q!2657 (+ (- 2) |run_sig_extensions#0.stack.deque_len|))) $x1138))))))
 )
(assert
 (let ((?x1816 (+ (- 2) |run_sig_extensions#0.stack.deque_len|)))
 (let ((?x1807 (select |run_sig_extensions#0.stack.deque_arr| ?x1816)))
 (let ((?x1812 (seq.len ?x1807)))
 (<= ?x1812 stack_max_item_size)))))
(assert
 (let ((?x1613 (+ (- 1) |run_sig_extensions#0.stack.deque_len|)))
 (let ((?x1656 (select |run_sig_extensions#0.stack.deque_arr| ?x1613)))
 (let ((?x1612 (seq.len ?x1656)))
 (let (($x1831 (= 32 ?x1612)))
 (let (($x1826 (not $x1831)))
 (not $x1826)))))))
(assert
 (let ((?x1816 (+ (- 2) |run_sig_extensions#0.stack.deque_len|)))
 (let ((?x1807 (select |run_sig_extensions#0.stack.deque_arr| ?x1816)))
 (let ((?x1812 (seq.len ?x1807)))
 (let (($x1773 (= 65 ?x1812)))
 (let (($x2111 (not $x1773)))
 (let (($x1834 (= 64 ?x1812)))
 (let (($x1835 (not $x1834)))
 (and $x1835 $x2111)))))))))
(assert
 (not true))
(check-sat)

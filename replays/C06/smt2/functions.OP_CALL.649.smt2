; obligation functions.OP_CALL/post/OPC:pointer.monotone
; benchmark generated from python API
(set-info :status unknown)
(declare-sort F 0)
(declare-datatypes ((Val 0)) (((absent) (vnone) (vbool (b Bool)) (vint (i Int)) (vbytes (y (Seq (_ BitVec 8)))) (vstr (s String)) (vfloat (f F)) (vblist (la (Array Int (Seq (_ BitVec 8)))) (ll Int) (lt Bool)) (vref (r Int)) (vopq (o Int)))))
(declare-fun stack_len () Int)
(declare-fun tape_flags_s () (Array String Val))
(declare-fun tape_flags_i () (Array Int Val))
(declare-fun tape_defs_b () (Array (Seq (_ BitVec 8)) Val))
(declare-fun tape_data () (Seq (_ BitVec 8)))
(declare-fun tape_pointer () Int)
(declare-fun stack_max_items () Int)
(declare-fun stack_max_item_size () Int)
(declare-fun stack_arr () (Array Int (Seq (_ BitVec 8))))
(declare-fun cache_s () (Array String Val))
(declare-fun tape_plugins_s () (Array String Val))
(declare-fun tape_cs_limit () Int)
(declare-fun tape_cs_count () Int)
(declare-fun def_cs_limit () Int)
(declare-fun tape_contracts_s () (Array String Val))
(declare-fun def_contracts_s () (Array String Val))
(declare-fun def_plugins_s () (Array String Val))
(declare-fun tape_contracts_i () (Array Int Val))
(declare-fun def_contracts_i () (Array Int Val))
(declare-fun tape_plugins_i () (Array Int Val))
(declare-fun def_plugins_i () (Array Int Val))
(declare-fun tape_contracts_b () (Array (Seq (_ BitVec 8)) Val))
(declare-fun def_contracts_b () (Array (Seq (_ BitVec 8)) Val))
(declare-fun tape_plugins_b () (Array (Seq (_ BitVec 8)) Val))
(declare-fun def_plugins_b () (Array (Seq (_ BitVec 8)) Val))
(declare-fun def_pointer () Int)
(declare-fun def_data () (Seq (_ BitVec 8)))
(declare-fun |run_tape#0.stack.deque_len| () Int)
(declare-fun |outcome_run_tape#0| () Int)
(declare-fun |run_tape#0.tape.pointer| () Int)
(declare-fun |run_tape#0.stack.deque_arr| () (Array Int (Seq (_ BitVec 8))))
(declare-fun |run_tape#0.cache_s| () (Array String Val))
(declare-fun |run_tape#0.tape.flags_i| () (Array Int Val))
(declare-fun |run_tape#0.tape.flags_s| () (Array String Val))
(declare-fun |run_tape#0.tape.definitions_b| () (Array (Seq (_ BitVec 8)) Val))
(declare-fun |run_tape#0.tape.callstack_count| () Int)
(declare-fun ref_len (Int) Int)
(assert
 (>= stack_len 0))
(assert
 (let ((?x175 (select tape_flags_s "ts_threshold")))
 (and (distinct ?x175 absent) true)))
(assert
 (let ((?x178 (select tape_flags_s "epoch_threshold")))
 (and (distinct ?x178 absent) true)))
(assert
 (let ((?x180 (select tape_flags_i 0)))
 (and (distinct ?x180 absent) true)))
(assert
 (let ((?x182 (select tape_flags_i 1)))
 (and (distinct ?x182 absent) true)))
(assert
 (let ((?x184 (select tape_flags_i 2)))
 (and (distinct ?x184 absent) true)))
(assert
 (let ((?x187 (select tape_flags_i 3)))
 (and (distinct ?x187 absent) true)))
(assert
 (let ((?x190 (select tape_flags_i 4)))
 (and (distinct ?x190 absent) true)))
(assert
 (let ((?x193 (select tape_flags_i 5)))
 (and (distinct ?x193 absent) true)))
(assert
 (let ((?x196 (select tape_flags_i 6)))
 (and (distinct ?x196 absent) true)))
(assert
 (let ((?x199 (select tape_flags_i 7)))
 (and (distinct ?x199 absent) true)))
(assert
 (let ((?x201 (select tape_flags_i 8)))
 (and (distinct ?x201 absent) true)))
(assert
 (let ((?x204 (select tape_flags_i 9)))
 (and (distinct ?x204 absent) true)))
(assert
 (let ((?x207 (select tape_flags_i 10)))
 (and (distinct ?x207 absent) true)))
(assert
 (forall ((kb!147 (Seq (_ BitVec 8))) )(! (or ((_ is absent ) (select tape_defs_b kb!147)) ((_ is vref ) (select tape_defs_b kb!147))) :pattern ( (select tape_defs_b kb!147) )))
 )
(assert
 (let ((?x38 (seq.len tape_data)))
 (let (($x213 (<= tape_pointer ?x38)))
 (let (($x210 (<= 0 tape_pointer)))
 (and $x210 $x213)))))
(assert
 (let (($x209 (<= stack_len stack_max_items)))
 (let (($x221 (<= 0 stack_len)))
 (and $x221 $x209))))
(assert
 (= stack_max_items stack_max_items))
(assert
 (forall ((q!148 Int) )(=> (and (>= q!148 0) (< q!148 stack_len)) (<= (seq.len (select stack_arr q!148)) stack_max_item_size)))
 )
(assert
 (let ((?x225 (select cache_s "returned")))
 (let (($x226 (and (distinct ?x225 absent) true)))
 (not $x226))))
(assert
 (let ((?x229 (select cache_s "sigfield1")))
 (let (($x231 ((_ is vbytes ) ?x229)))
 (let (($x230 ((_ is absent ) ?x229)))
 (or $x230 $x231)))))
(assert
 (let ((?x241 (select cache_s "sigfield2")))
 (let (($x243 ((_ is vbytes ) ?x241)))
 (let (($x242 ((_ is absent ) ?x241)))
 (or $x242 $x243)))))
(assert
 (let ((?x246 (select cache_s "sigfield3")))
 (let (($x248 ((_ is vbytes ) ?x246)))
 (let (($x247 ((_ is absent ) ?x246)))
 (or $x247 $x248)))))
(assert
 (let ((?x251 (select cache_s "sigfield4")))
 (let (($x253 ((_ is vbytes ) ?x251)))
 (let (($x252 ((_ is absent ) ?x251)))
 (or $x252 $x253)))))
(assert
 (let ((?x256 (select cache_s "sigfield5")))
 (let (($x258 ((_ is vbytes ) ?x256)))
 (let (($x257 ((_ is absent ) ?x256)))
 (or $x257 $x258)))))
(assert
 (let ((?x261 (select cache_s "sigfield6")))
 (let (($x263 ((_ is vbytes ) ?x261)))
 (let (($x262 ((_ is absent ) ?x261)))
 (or $x262 $x263)))))
(assert
 (let ((?x266 (select cache_s "sigfield7")))
 (let (($x268 ((_ is vbytes ) ?x266)))
 (let (($x267 ((_ is absent ) ?x266)))
 (or $x267 $x268)))))
(assert
 (let ((?x271 (select cache_s "sigfield8")))
 (let (($x273 ((_ is vbytes ) ?x271)))
 (let (($x272 ((_ is absent ) ?x271)))
 (or $x272 $x273)))))
(assert
 (let ((?x180 (select tape_flags_i 0)))
 (let (($x276 ((_ is vbool ) ?x180)))
 (let (($x275 ((_ is absent ) ?x180)))
 (or $x275 $x276)))))
(assert
 (let ((?x182 (select tape_flags_i 1)))
 (let (($x279 ((_ is vbool ) ?x182)))
 (let (($x278 ((_ is absent ) ?x182)))
 (or $x278 $x279)))))
(assert
 (let ((?x184 (select tape_flags_i 2)))
 (let (($x282 ((_ is vbool ) ?x184)))
 (let (($x281 ((_ is absent ) ?x184)))
 (or $x281 $x282)))))
(assert
 (let ((?x187 (select tape_flags_i 3)))
 (let (($x285 ((_ is vbool ) ?x187)))
 (let (($x284 ((_ is absent ) ?x187)))
 (or $x284 $x285)))))
(assert
 (let ((?x190 (select tape_flags_i 4)))
 (let (($x288 ((_ is vbool ) ?x190)))
 (let (($x287 ((_ is absent ) ?x190)))
 (or $x287 $x288)))))
(assert
 (let ((?x193 (select tape_flags_i 5)))
 (let (($x291 ((_ is vbool ) ?x193)))
 (let (($x290 ((_ is absent ) ?x193)))
 (or $x290 $x291)))))
(assert
 (let ((?x196 (select tape_flags_i 6)))
 (let (($x294 ((_ is vbool ) ?x196)))
 (let (($x293 ((_ is absent ) ?x196)))
 (or $x293 $x294)))))
(assert
 (let ((?x199 (select tape_flags_i 7)))
 (let (($x297 ((_ is vbool ) ?x199)))
 (let (($x296 ((_ is absent ) ?x199)))
 (or $x296 $x297)))))
(assert
 (let ((?x201 (select tape_flags_i 8)))
 (let (($x300 ((_ is vbool ) ?x201)))
 (let (($x299 ((_ is absent ) ?x201)))
 (or $x299 $x300)))))
(assert
 (let ((?x204 (select tape_flags_i 9)))
 (let (($x303 ((_ is vbool ) ?x204)))
 (let (($x302 ((_ is absent ) ?x204)))
 (or $x302 $x303)))))
(assert
 (let ((?x207 (select tape_flags_i 10)))
 (let (($x306 ((_ is vbool ) ?x207)))
 (let (($x305 ((_ is absent ) ?x207)))
 (or $x305 $x306)))))
(assert
 (let ((?x309 (select tape_plugins_s "signature_extensions")))
 (let (($x311 ((_ is vref ) ?x309)))
 (let (($x310 ((_ is absent ) ?x309)))
 (or $x310 $x311)))))
(assert
 (let ((?x314 (select tape_plugins_s "check_template")))
 (let (($x316 ((_ is vref ) ?x314)))
 (let (($x315 ((_ is absent ) ?x314)))
 (or $x315 $x316)))))
(assert
 (< tape_cs_count tape_cs_limit))
(assert
 (let ((?x38 (seq.len tape_data)))
 (let (($x213 (<= tape_pointer ?x38)))
 (let (($x210 (<= 0 tape_pointer)))
 (and $x210 $x213)))))
(assert
 (let ((?x38 (seq.len tape_data)))
 (let ((?x1993 (+ tape_pointer 1)))
 (let (($x2572 (> ?x1993 ?x38)))
 (not $x2572)))))
(assert
 (let ((?x38 (seq.len tape_data)))
 (let ((?x1993 (+ tape_pointer 1)))
 (let (($x8713 (<= ?x1993 ?x38)))
 (let (($x1165 (<= 0 ?x1993)))
 (and $x1165 $x8713))))))
(assert
 (let ((?x1993 (+ tape_pointer 1)))
 (>= ?x1993 tape_pointer)))
(assert
 (let ((?x1993 (+ tape_pointer 1)))
 (let ((?x1314 (- ?x1993 tape_pointer)))
 (let ((?x1292 (seq.extract tape_data tape_pointer ?x1314)))
 (let ((?x2213 (select tape_defs_b ?x1292)))
 (and (distinct ?x2213 absent) true))))))
(assert
 (let ((?x1993 (+ tape_pointer 1)))
 (let ((?x1314 (- ?x1993 tape_pointer)))
 (let ((?x1292 (seq.extract tape_data tape_pointer ?x1314)))
 (let ((?x2213 (select tape_defs_b ?x1292)))
 ((_ is vref ) ?x2213))))))
(assert
 (= def_cs_limit tape_cs_limit))
(assert
 (= def_contracts_s tape_contracts_s))
(assert
 (= def_plugins_s tape_plugins_s))
(assert
 (= def_contracts_i tape_contracts_i))
(assert
 (= def_plugins_i tape_plugins_i))
(assert
 (= def_contracts_b tape_contracts_b))
(assert
 (= def_plugins_b tape_plugins_b))
(assert
 (= tape_flags_s tape_flags_s))
(assert
 (= tape_flags_i tape_flags_i))
(assert
 (>= def_pointer 0))
(assert
 (let ((?x28782 (seq.len def_data)))
 (<= def_pointer ?x28782)))
(assert
 (let ((?x28782 (seq.len def_data)))
 (<= 0 ?x28782)))
(assert
 (let (($x209 (<= stack_len stack_max_items)))
 (let (($x221 (<= 0 stack_len)))
 (and $x221 $x209))))
(assert
 (= stack_max_items stack_max_items))
(assert
 (forall ((q!149 Int) )(=> (and (>= q!149 0) (< q!149 stack_len)) (<= (seq.len (select stack_arr q!149)) stack_max_item_size)))
 )
(assert
 (let ((?x225 (select cache_s "returned")))
 (let (($x226 (and (distinct ?x225 absent) true)))
 (not $x226))))
(assert
 (let ((?x229 (select cache_s "sigfield1")))
 (let (($x231 ((_ is vbytes ) ?x229)))
 (let (($x230 ((_ is absent ) ?x229)))
 (or $x230 $x231)))))
(assert
 (let ((?x241 (select cache_s "sigfield2")))
 (let (($x243 ((_ is vbytes ) ?x241)))
 (let (($x242 ((_ is absent ) ?x241)))
 (or $x242 $x243)))))
(assert
 (let ((?x246 (select cache_s "sigfield3")))
 (let (($x248 ((_ is vbytes ) ?x246)))
 (let (($x247 ((_ is absent ) ?x246)))
 (or $x247 $x248)))))
(assert
 (let ((?x251 (select cache_s "sigfield4")))
 (let (($x253 ((_ is vbytes ) ?x251)))
 (let (($x252 ((_ is absent ) ?x251)))
 (or $x252 $x253)))))
(assert
 (let ((?x256 (select cache_s "sigfield5")))
 (let (($x258 ((_ is vbytes ) ?x256)))
 (let (($x257 ((_ is absent ) ?x256)))
 (or $x257 $x258)))))
(assert
 (let ((?x261 (select cache_s "sigfield6")))
 (let (($x263 ((_ is vbytes ) ?x261)))
 (let (($x262 ((_ is absent ) ?x261)))
 (or $x262 $x263)))))
(assert
 (let ((?x266 (select cache_s "sigfield7")))
 (let (($x268 ((_ is vbytes ) ?x266)))
 (let (($x267 ((_ is absent ) ?x266)))
 (or $x267 $x268)))))
(assert
 (let ((?x271 (select cache_s "sigfield8")))
 (let (($x273 ((_ is vbytes ) ?x271)))
 (let (($x272 ((_ is absent ) ?x271)))
 (or $x272 $x273)))))
(assert
 (let ((?x180 (select tape_flags_i 0)))
 (let (($x276 ((_ is vbool ) ?x180)))
 (let (($x275 ((_ is absent ) ?x180)))
 (or $x275 $x276)))))
(assert
 (let ((?x182 (select tape_flags_i 1)))
 (let (($x279 ((_ is vbool ) ?x182)))
 (let (($x278 ((_ is absent ) ?x182)))
 (or $x278 $x279)))))
(assert
 (let ((?x184 (select tape_flags_i 2)))
 (let (($x282 ((_ is vbool ) ?x184)))
 (let (($x281 ((_ is absent ) ?x184)))
 (or $x281 $x282)))))
(assert
 (let ((?x187 (select tape_flags_i 3)))
 (let (($x285 ((_ is vbool ) ?x187)))
 (let (($x284 ((_ is absent ) ?x187)))
 (or $x284 $x285)))))
(assert
 (let ((?x190 (select tape_flags_i 4)))
 (let (($x288 ((_ is vbool ) ?x190)))
 (let (($x287 ((_ is absent ) ?x190)))
 (or $x287 $x288)))))
(assert
 (let ((?x193 (select tape_flags_i 5)))
 (let (($x291 ((_ is vbool ) ?x193)))
 (let (($x290 ((_ is absent ) ?x193)))
 (or $x290 $x291)))))
(assert
 (let ((?x196 (select tape_flags_i 6)))
 (let (($x294 ((_ is vbool ) ?x196)))
 (let (($x293 ((_ is absent ) ?x196)))
 (or $x293 $x294)))))
(assert
 (let ((?x199 (select tape_flags_i 7)))
 (let (($x297 ((_ is vbool ) ?x199)))
 (let (($x296 ((_ is absent ) ?x199)))
 (or $x296 $x297)))))
(assert
 (let ((?x201 (select tape_flags_i 8)))
 (let (($x300 ((_ is vbool ) ?x201)))
 (let (($x299 ((_ is absent ) ?x201)))
 (or $x299 $x300)))))
(assert
 (let ((?x204 (select tape_flags_i 9)))
 (let (($x303 ((_ is vbool ) ?x204)))
 (let (($x302 ((_ is absent ) ?x204)))
 (or $x302 $x303)))))
(assert
 (let ((?x207 (select tape_flags_i 10)))
 (let (($x306 ((_ is vbool ) ?x207)))
 (let (($x305 ((_ is absent ) ?x207)))
 (or $x305 $x306)))))
(assert
 (let ((?x1851 (select def_plugins_s "signature_extensions")))
 (let (($x2184 ((_ is vref ) ?x1851)))
 (let (($x1486 ((_ is absent ) ?x1851)))
 (or $x1486 $x2184)))))
(assert
 (let ((?x1243 (select def_plugins_s "check_template")))
 (let (($x1265 ((_ is vref ) ?x1243)))
 (let (($x1316 ((_ is absent ) ?x1243)))
 (or $x1316 $x1265)))))
(assert
 (forall ((kb!150 (Seq (_ BitVec 8))) )(! (or ((_ is absent ) (select tape_defs_b kb!150)) ((_ is vref ) (select tape_defs_b kb!150))) :pattern ( (select tape_defs_b kb!150) )))
 )
(assert
 (>= |run_tape#0.stack.deque_len| 0))
(assert
 (= |outcome_run_tape#0| 0))
(assert
 (let ((?x28782 (seq.len def_data)))
 (let (($x1703 (<= |run_tape#0.tape.pointer| ?x28782)))
 (let (($x1830 (<= 0 |run_tape#0.tape.pointer|)))
 (and $x1830 $x1703)))))
(assert
 (let (($x2103 (<= |run_tape#0.stack.deque_len| stack_max_items)))
 (let (($x2250 (<= 0 |run_tape#0.stack.deque_len|)))
 (and $x2250 $x2103))))
(assert
 (= stack_max_items stack_max_items))
(assert
 (forall ((q!151 Int) )(let ((?x1769 (select |run_tape#0.stack.deque_arr| q!151)))
 (let ((?x1775 (seq.len ?x1769)))
 (=> (and (>= q!151 0) (< q!151 |run_tape#0.stack.deque_len|)) (<= ?x1775 stack_max_item_size)))))
 )
(assert
 (let ((?x1781 (select |run_tape#0.cache_s| "sigfield1")))
 (let (($x2361 ((_ is vbytes ) ?x1781)))
 (let (($x2270 ((_ is absent ) ?x1781)))
 (or $x2270 $x2361)))))
(assert
 (let ((?x1578 (select |run_tape#0.cache_s| "sigfield2")))
 (let (($x1767 ((_ is vbytes ) ?x1578)))
 (let (($x1766 ((_ is absent ) ?x1578)))
 (or $x1766 $x1767)))))
(assert
 (let ((?x1718 (select |run_tape#0.cache_s| "sigfield3")))
 (let (($x1610 ((_ is vbytes ) ?x1718)))
 (let (($x1267 ((_ is absent ) ?x1718)))
 (or $x1267 $x1610)))))
(assert
 (let ((?x1631 (select |run_tape#0.cache_s| "sigfield4")))
 (let (($x1296 ((_ is vbytes ) ?x1631)))
 (let (($x1417 ((_ is absent ) ?x1631)))
 (or $x1417 $x1296)))))
(assert
 (let ((?x1685 (select |run_tape#0.cache_s| "sigfield5")))
 (let (($x1681 ((_ is vbytes ) ?x1685)))
 (let (($x1693 ((_ is absent ) ?x1685)))
 (or $x1693 $x1681)))))
(assert
 (let ((?x1794 (select |run_tape#0.cache_s| "sigfield6")))
 (let (($x2142 ((_ is vbytes ) ?x1794)))
 (let (($x1545 ((_ is absent ) ?x1794)))
 (or $x1545 $x2142)))))
(assert
 (let ((?x1585 (select |run_tape#0.cache_s| "sigfield7")))
 (let (($x1672 ((_ is vbytes ) ?x1585)))
 (let (($x1438 ((_ is absent ) ?x1585)))
 (or $x1438 $x1672)))))
(assert
 (let ((?x1792 (select |run_tape#0.cache_s| "sigfield8")))
 (let (($x1363 ((_ is vbytes ) ?x1792)))
 (let (($x1526 ((_ is absent ) ?x1792)))
 (or $x1526 $x1363)))))
(assert
 (let ((?x1779 (select |run_tape#0.tape.flags_i| 0)))
 (let (($x2501 ((_ is vbool ) ?x1779)))
 (let (($x1680 ((_ is absent ) ?x1779)))
 (or $x1680 $x2501)))))
(assert
 (let ((?x1628 (select |run_tape#0.tape.flags_i| 1)))
 (let (($x1492 ((_ is vbool ) ?x1628)))
 (let (($x1179 ((_ is absent ) ?x1628)))
 (or $x1179 $x1492)))))
(assert
 (let ((?x2337 (select |run_tape#0.tape.flags_i| 2)))
 (let (($x1507 ((_ is vbool ) ?x2337)))
 (let (($x1802 ((_ is absent ) ?x2337)))
 (or $x1802 $x1507)))))
(assert
 (let ((?x1285 (select |run_tape#0.tape.flags_i| 3)))
 (let (($x1411 ((_ is vbool ) ?x1285)))
 (let (($x2357 ((_ is absent ) ?x1285)))
 (or $x2357 $x1411)))))
(assert
 (let ((?x1397 (select |run_tape#0.tape.flags_i| 4)))
 (let (($x2525 ((_ is vbool ) ?x1397)))
 (let (($x1401 ((_ is absent ) ?x1397)))
 (or $x1401 $x2525)))))
(assert
 (let ((?x2347 (select |run_tape#0.tape.flags_i| 5)))
 (let (($x1324 ((_ is vbool ) ?x2347)))
 (let (($x1926 ((_ is absent ) ?x2347)))
 (or $x1926 $x1324)))))
(assert
 (let ((?x1468 (select |run_tape#0.tape.flags_i| 6)))
 (let (($x1719 ((_ is vbool ) ?x1468)))
 (let (($x1522 ((_ is absent ) ?x1468)))
 (or $x1522 $x1719)))))
(assert
 (let ((?x1484 (select |run_tape#0.tape.flags_i| 7)))
 (let (($x1182 ((_ is vbool ) ?x1484)))
 (let (($x1259 ((_ is absent ) ?x1484)))
 (or $x1259 $x1182)))))
(assert
 (let ((?x1596 (select |run_tape#0.tape.flags_i| 8)))
 (let (($x1581 ((_ is vbool ) ?x1596)))
 (let (($x1463 ((_ is absent ) ?x1596)))
 (or $x1463 $x1581)))))
(assert
 (let ((?x1671 (select |run_tape#0.tape.flags_i| 9)))
 (let (($x1213 ((_ is vbool ) ?x1671)))
 (let (($x1720 ((_ is absent ) ?x1671)))
 (or $x1720 $x1213)))))
(assert
 (let ((?x1605 (select |run_tape#0.tape.flags_i| 10)))
 (let (($x1587 ((_ is vbool ) ?x1605)))
 (let (($x1826 ((_ is absent ) ?x1605)))
 (or $x1826 $x1587)))))
(assert
 (let ((?x1575 (select |run_tape#0.tape.flags_s| "ts_threshold")))
 (and (distinct ?x1575 absent) true)))
(assert
 (let ((?x1853 (select |run_tape#0.tape.flags_s| "epoch_threshold")))
 (and (distinct ?x1853 absent) true)))
(assert
 (let ((?x1779 (select |run_tape#0.tape.flags_i| 0)))
 (and (distinct ?x1779 absent) true)))
(assert
 (let ((?x1628 (select |run_tape#0.tape.flags_i| 1)))
 (and (distinct ?x1628 absent) true)))
(assert
 (let ((?x2337 (select |run_tape#0.tape.flags_i| 2)))
 (and (distinct ?x2337 absent) true)))
(assert
 (let ((?x1285 (select |run_tape#0.tape.flags_i| 3)))
 (and (distinct ?x1285 absent) true)))
(assert
 (let ((?x1397 (select |run_tape#0.tape.flags_i| 4)))
 (and (distinct ?x1397 absent) true)))
(assert
 (let ((?x2347 (select |run_tape#0.tape.flags_i| 5)))
 (and (distinct ?x2347 absent) true)))
(assert
 (let ((?x1468 (select |run_tape#0.tape.flags_i| 6)))
 (and (distinct ?x1468 absent) true)))
(assert
 (let ((?x1484 (select |run_tape#0.tape.flags_i| 7)))
 (and (distinct ?x1484 absent) true)))
(assert
 (let ((?x1596 (select |run_tape#0.tape.flags_i| 8)))
 (and (distinct ?x1596 absent) true)))
(assert
 (let ((?x1671 (select |run_tape#0.tape.flags_i| 9)))
 (and (distinct ?x1671 absent) true)))
(assert
 (let ((?x1605 (select |run_tape#0.tape.flags_i| 10)))
 (and (distinct ?x1605 absent) true)))
(assert
 (forall ((kb!152 (Seq (_ BitVec 8))) )(! (or ((_ is absent ) (select |run_tape#0.tape.definitions_b| kb!152)) ((_ is vref ) (select |run_tape#0.tape.definitions_b| kb!152))) :pattern ( (select |run_tape#0.tape.definitions_b| kb!152) )))
 )
(assert
 (let ((?x28782 (seq.len def_data)))
 (= |run_tape#0.tape.pointer| ?x28782)))
(assert
 (<= 0 |run_tape#0.tape.pointer|))
(assert
 (let ((?x2056 (+ tape_cs_count 1)))
 (>= |run_tape#0.tape.callstack_count| ?x2056)))
(assert
 (let ((?x1412 (vbool true)))
 (let ((?x1613 (store |run_tape#0.cache_s| "returned" ?x1412)))
 (let ((?x32979 (store cache_s "returned" ?x1412)))
 (let (($x2320 (= ?x32979 ?x1613)))
 (let ((?x1243 (select def_plugins_s "check_template")))
 (let ((?x1207 (r ?x1243)))
 (let ((?x1600 (ref_len ?x1207)))
 (let (($x1265 ((_ is vref ) ?x1243)))
 (let ((?x1615 (ite $x1265 ?x1600 0)))
 (let (($x2244 (= 0 ?x1615)))
 (let ((?x1851 (select def_plugins_s "signature_extensions")))
 (let ((?x1480 (r ?x1851)))
 (let ((?x2274 (ref_len ?x1480)))
 (let (($x2184 ((_ is vref ) ?x1851)))
 (let ((?x2397 (ite $x2184 ?x2274 0)))
 (let (($x1601 (= 0 ?x2397)))
 (let (($x1645 (and $x1601 $x2244)))
 (=> $x1645 $x2320)))))))))))))))))))
(assert
 (let ((?x2353 (select |run_tape#0.cache_s| "returned")))
 (let (($x1567 (and (distinct ?x2353 absent) true)))
 (not $x1567))))
(assert
 (let ((?x1993 (+ tape_pointer 1)))
(let (($x2209 (>= ?x1993 tape_pointer)))
(not $x2209))))
(check-sat)

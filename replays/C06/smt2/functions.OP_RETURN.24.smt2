; obligation functions.OP_RETURN/post/OPC:ks-frame
; benchmark generated from python API
(set-info :status unknown)
(declare-sort F 0)
(declare-datatypes ((Val 0)) (((absent) (vnone) (vbool (b Bool)) (vint (i Int)) (vbytes (y (Seq (_ BitVec 8)))) (vstr (s String)) (vfloat (f F)) (vblist (la (Array Int (Seq (_ BitVec 8)))) (ll Int) (lt Bool)) (vref (r Int)) (vopq (o Int)))))
(declare-fun stack_len () Int)
(declare-fun tape_data () (Seq (_ BitVec 8)))
(declare-fun tape_pointer () Int)
(declare-fun stack_max_items () Int)
(declare-fun stack_max_item_size () Int)
(declare-fun stack_arr () (Array Int (Seq (_ BitVec 8))))
(declare-fun cache_s () (Array String Val))
(declare-fun tape_flags_i () (Array Int Val))
(declare-fun tape_plugins_s () (Array String Val))
(declare-fun ref_len (Int) Int)
(assert
 (>= stack_len 0))
(assert
 (let ((?x38 (seq.len tape_data)))
 (let (($x178 (<= tape_pointer ?x38)))
 (let (($x175 (<= 0 tape_pointer)))
 (and $x175 $x178)))))
(assert
 (let (($x174 (<= stack_len stack_max_items)))
 (let (($x180 (<= 0 stack_len)))
 (and $x180 $x174))))
(assert
 (= stack_max_items stack_max_items))
(assert
 (forall ((q!0 Int) )(=> (and (>= q!0 0) (< q!0 stack_len)) (<= (seq.len (select stack_arr q!0)) stack_max_item_size)))
 )
(assert
 (let ((?x184 (select cache_s "returned")))
 (let (($x185 (and (distinct ?x184 absent) true)))
 (not $x185))))
(assert
 (let ((?x188 (select cache_s "sigfield1")))
 (let (($x190 ((_ is vbytes ) ?x188)))
 (let (($x189 ((_ is absent ) ?x188)))
 (or $x189 $x190)))))
(assert
 (let ((?x200 (select cache_s "sigfield2")))
 (let (($x202 ((_ is vbytes ) ?x200)))
 (let (($x201 ((_ is absent ) ?x200)))
 (or $x201 $x202)))))
(assert
 (let ((?x205 (select cache_s "sigfield3")))
 (let (($x207 ((_ is vbytes ) ?x205)))
 (let (($x206 ((_ is absent ) ?x205)))
 (or $x206 $x207)))))
(assert
 (let ((?x210 (select cache_s "sigfield4")))
 (let (($x212 ((_ is vbytes ) ?x210)))
 (let (($x211 ((_ is absent ) ?x210)))
 (or $x211 $x212)))))
(assert
 (let ((?x215 (select cache_s "sigfield5")))
 (let (($x217 ((_ is vbytes ) ?x215)))
 (let (($x216 ((_ is absent ) ?x215)))
 (or $x216 $x217)))))
(assert
 (let ((?x220 (select cache_s "sigfield6")))
 (let (($x222 ((_ is vbytes ) ?x220)))
 (let (($x221 ((_ is absent ) ?x220)))
 (or $x221 $x222)))))
(assert
 (let ((?x225 (select cache_s "sigfield7")))
 (let (($x227 ((_ is vbytes ) ?x225)))
 (let (($x226 ((_ is absent ) ?x225)))
 (or $x226 $x227)))))
(assert
 (let ((?x230 (select cache_s "sigfield8")))
 (let (($x232 ((_ is vbytes ) ?x230)))
 (let (($x231 ((_ is absent ) ?x230)))
 (or $x231 $x232)))))
(assert
 (let ((?x234 (select tape_flags_i 0)))
 (let (($x236 ((_ is vbool ) ?x234)))
 (let (($x235 ((_ is absent ) ?x234)))
 (or $x235 $x236)))))
(assert
 (let ((?x238 (select tape_flags_i 1)))
 (let (($x240 ((_ is vbool ) ?x238)))
 (let (($x239 ((_ is absent ) ?x238)))
 (or $x239 $x240)))))
(assert
 (let ((?x242 (select tape_flags_i 2)))
 (let (($x244 ((_ is vbool ) ?x242)))
 (let (($x243 ((_ is absent ) ?x242)))
 (or $x243 $x244)))))
(assert
 (let ((?x247 (select tape_flags_i 3)))
 (let (($x249 ((_ is vbool ) ?x247)))
 (let (($x248 ((_ is absent ) ?x247)))
 (or $x248 $x249)))))
(assert
 (let ((?x252 (select tape_flags_i 4)))
 (let (($x254 ((_ is vbool ) ?x252)))
 (let (($x253 ((_ is absent ) ?x252)))
 (or $x253 $x254)))))
(assert
 (let ((?x257 (select tape_flags_i 5)))
 (let (($x259 ((_ is vbool ) ?x257)))
 (let (($x258 ((_ is absent ) ?x257)))
 (or $x258 $x259)))))
(assert
 (let ((?x262 (select tape_flags_i 6)))
 (let (($x264 ((_ is vbool ) ?x262)))
 (let (($x263 ((_ is absent ) ?x262)))
 (or $x263 $x264)))))
(assert
 (let ((?x267 (select tape_flags_i 7)))
 (let (($x269 ((_ is vbool ) ?x267)))
 (let (($x268 ((_ is absent ) ?x267)))
 (or $x268 $x269)))))
(assert
 (let ((?x271 (select tape_flags_i 8)))
 (let (($x273 ((_ is vbool ) ?x271)))
 (let (($x272 ((_ is absent ) ?x271)))
 (or $x272 $x273)))))
(assert
 (let ((?x276 (select tape_flags_i 9)))
 (let (($x278 ((_ is vbool ) ?x276)))
 (let (($x277 ((_ is absent ) ?x276)))
 (or $x277 $x278)))))
(assert
 (let ((?x281 (select tape_flags_i 10)))
 (let (($x283 ((_ is vbool ) ?x281)))
 (let (($x282 ((_ is absent ) ?x281)))
 (or $x282 $x283)))))
(assert
 (let ((?x286 (select tape_plugins_s "signature_extensions")))
 (let (($x288 ((_ is vref ) ?x286)))
 (let (($x287 ((_ is absent ) ?x286)))
 (or $x287 $x288)))))
(assert
 (let ((?x291 (select tape_plugins_s "check_template")))
 (let (($x293 ((_ is vref ) ?x291)))
 (let (($x292 ((_ is absent ) ?x291)))
 (or $x292 $x293)))))
(assert
 (let ((?x291 (select tape_plugins_s "check_template")))
(let (($x293 ((_ is vref ) ?x291)))
(let ((?x286 (select tape_plugins_s "signature_extensions")))
(let ((?x1129 (r ?x286)))
(let ((?x1125 (ref_len ?x1129)))
(let (($x288 ((_ is vref ) ?x286)))
(let ((?x1128 (ite $x288 ?x1125 0)))
(let (($x1132 (= 0 ?x1128)))
(let (($x1137 (and $x1132 (= 0 (ite $x293 (ref_len (r ?x291)) 0)))))
(let (($x1139 (=> $x1137 (= cache_s (store cache_s "returned" (vbool true))))))
(not $x1139))))))))))))
(check-sat)

; obligation functions.OP_CALL/post/OPC:pointer.monotone
; benchmark generated from python API
(set-info :status unknown)
(declare-sort F 0)
(declare-datatypes ((Val 0)) (((absent) (vnone) (vbool (b Bool)) (vint (i Int)) (vbytes (y (Seq (_ BitVec 8)))) (vstr (s String)) (vfloat (f F)) (vblist (la (Array Int (Seq (_ BitVec 8)))) (ll Int) (lt Bool)) (vref (r Int)) (vopq (o Int)))))
(declare-fun stack_len () Int)
(declare-fun tape_flags_s () (Array String Val))
(declare-fun tape_flags_i () (Array Int Val))
(declare-fun tape_defs_b () (Array (Seq (_ BitVec 8)) Val))
(declare-fun tape_data () (Seq (_ BitVec 8)))
(declare-fun tape_pointer () Int)
(declare-fun stack_max_items () Int)
(declare-fun stack_max_item_size () Int)
(declare-fun stack_arr () (Array Int (Seq (_ BitVec 8))))
(declare-fun cache_s () (Array String Val))
(declare-fun tape_plugins_s () (Array String Val))
(declare-fun tape_cs_limit () Int)
(declare-fun tape_cs_count () Int)
(declare-fun |run_tape#0.stack.deque_len| () Int)
(declare-fun |outcome_run_tape#0| () Int)
(declare-fun |run_tape#0.tape.pointer| () Int)
(declare-fun |run_tape#0.stack.deque_arr| () (Array Int (Seq (_ BitVec 8))))
(declare-fun |run_tape#0.cache_s| () (Array String Val))
(declare-fun |run_tape#0.tape.flags_i| () (Array Int Val))
(declare-fun |run_tape#0.tape.flags_s| () (Array String Val))
(declare-fun |run_tape#0.tape.definitions_b| () (Array (Seq (_ BitVec 8)) Val))
(declare-fun |run_tape#0.tape.callstack_count| () Int)
(declare-fun ref_len (Int) Int)
(assert
 (>= stack_len 0))
(assert
 (let ((?x175 (select tape_flags_s "ts_threshold")))
 (and (distinct ?x175 absent) true)))
(assert
 (let ((?x178 (select tape_flags_s "epoch_threshold")))
 (and (distinct ?x178 absent) true)))
(assert
 (let ((?x180 (select tape_flags_i 0)))
 (and (distinct ?x180 absent) true)))
(assert
 (let ((?x182 (select tape_flags_i 1)))
 (and (distinct ?x182 absent) true)))
(assert
 (let ((?x184 (select tape_flags_i 2)))
 (and (distinct ?x184 absent) true)))
(assert
 (let ((?x187 (select tape_flags_i 3)))
 (and (distinct ?x187 absent) true)))
(assert
 (let ((?x190 (select tape_flags_i 4)))
 (and (distinct ?x190 absent) true)))
(assert
 (let ((?x193 (select tape_flags_i 5)))
 (and (distinct ?x193 absent) true)))
(assert
 (let ((?x196 (select tape_flags_i 6)))
 (and (distinct ?x196 absent) true)))
(assert
 (let ((?x199 (select tape_flags_i 7)))
 (and (distinct ?x199 absent) true)))
(assert
 (let ((?x201 (select tape_flags_i 8)))
 (and (distinct ?x201 absent) true)))
(assert
 (let ((?x204 (select tape_flags_i 9)))
 (and (distinct ?x204 absent) true)))
(assert
 (let ((?x207 (select tape_flags_i 10)))
 (and (distinct ?x207 absent) true)))
(assert
 (forall ((kb!51 (Seq (_ BitVec 8))) )(! (or ((_ is absent ) (select tape_defs_b kb!51)) ((_ is vref ) (select tape_defs_b kb!51))) :pattern ( (select tape_defs_b kb!51) )))
 )
(assert
 (let ((?x38 (seq.len tape_data)))
 (let (($x213 (<= tape_pointer ?x38)))
 (let (($x210 (<= 0 tape_pointer)))
 (and $x210 $x213)))))
(assert
 (let (($x209 (<= stack_len stack_max_items)))
 (let (($x221 (<= 0 stack_len)))
 (and $x221 $x209))))
(assert
 (= stack_max_items stack_max_items))
(assert
 (forall ((q!52 Int) )(=> (and (>= q!52 0) (< q!52 stack_len)) (<= (seq.len (select stack_arr q!52)) stack_max_item_size)))
 )
(assert
 (let ((?x225 (select cache_s "returned")))
 (let (($x226 (and (distinct ?x225 absent) true)))
 (not $x226))))
(assert
 (let ((?x229 (select cache_s "sigfield1")))
 (let (($x231 ((_ is vbytes ) ?x229)))
 (let (($x230 ((_ is absent ) ?x229)))
 (or $x230 $x231)))))
(assert
 (let ((?x241 (select cache_s "sigfield2")))
 (let (($x243 ((_ is vbytes ) ?x241)))
 (let (($x242 ((_ is absent ) ?x241)))
 (or $x242 $x243)))))
(assert
 (let ((?x246 (select cache_s "sigfield3")))
 (let (($x248 ((_ is vbytes ) ?x246)))
 (let (($x247 ((_ is absent ) ?x246)))
 (or $x247 $x248)))))
(assert
 (let ((?x251 (select cache_s "sigfield4")))
 (let (($x253 ((_ is vbytes ) ?x251)))
 (let (($x252 ((_ is absent ) ?x251)))
 (or $x252 $x253)))))
(assert
 (let ((?x256 (select cache_s "sigfield5")))
 (let (($x258 ((_ is vbytes ) ?x256)))
 (let (($x257 ((_ is absent ) ?x256)))
 (or $x257 $x258)))))
(assert
 (let ((?x261 (select cache_s "sigfield6")))
 (let (($x263 ((_ is vbytes ) ?x261)))
 (let (($x262 ((_ is absent ) ?x261)))
 (or $x262 $x263)))))
(assert
 (let ((?x266 (select cache_s "sigfield7")))
 (let (($x268 ((_ is vbytes ) ?x266)))
 (let (($x267 ((_ is absent ) ?x266)))
 (or $x267 $x268)))))
(assert
 (let ((?x271 (select cache_s "sigfield8")))
 (let (($x273 ((_ is vbytes ) ?x271)))
 (let (($x272 ((_ is absent ) ?x271)))
 (or $x272 $x273)))))
(assert
 (let ((?x180 (select tape_flags_i 0)))
 (let (($x276 ((_ is vbool ) ?x180)))
 (let (($x275 ((_ is absent ) ?x180)))
 (or $x275 $x276)))))
(assert
 (let ((?x182 (select tape_flags_i 1)))
 (let (($x279 ((_ is vbool ) ?x182)))
 (let (($x278 ((_ is absent ) ?x182)))
 (or $x278 $x279)))))
(assert
 (let ((?x184 (select tape_flags_i 2)))
 (let (($x282 ((_ is vbool ) ?x184)))
 (let (($x281 ((_ is absent ) ?x184)))
 (or $x281 $x282)))))
(assert
 (let ((?x187 (select tape_flags_i 3)))
 (let (($x285 ((_ is vbool ) ?x187)))
 (let (($x284 ((_ is absent ) ?x187)))
 (or $x284 $x285)))))
(assert
 (let ((?x190 (select tape_flags_i 4)))
 (let (($x288 ((_ is vbool ) ?x190)))
 (let (($x287 ((_ is absent ) ?x190)))
 (or $x287 $x288)))))
(assert
 (let ((?x193 (select tape_flags_i 5)))
 (let (($x291 ((_ is vbool ) ?x193)))
 (let (($x290 ((_ is absent ) ?x193)))
 (or $x290 $x291)))))
(assert
 (let ((?x196 (select tape_flags_i 6)))
 (let (($x294 ((_ is vbool ) ?x196)))
 (let (($x293 ((_ is absent ) ?x196)))
 (or $x293 $x294)))))
(assert
 (let ((?x199 (select tape_flags_i 7)))
 (let (($x297 ((_ is vbool ) ?x199)))
 (let (($x296 ((_ is absent ) ?x199)))
 (or $x296 $x297)))))
(assert
 (let ((?x201 (select tape_flags_i 8)))
 (let (($x300 ((_ is vbool ) ?x201)))
 (let (($x299 ((_ is absent ) ?x201)))
 (or $x299 $x300)))))
(assert
 (let ((?x204 (select tape_flags_i 9)))
 (let (($x303 ((_ is vbool ) ?x204)))
 (let (($x302 ((_ is absent ) ?x204)))
 (or $x302 $x303)))))
(assert
 (let ((?x207 (select tape_flags_i 10)))
 (let (($x306 ((_ is vbool ) ?x207)))
 (let (($x305 ((_ is absent ) ?x207)))
 (or $x305 $x306)))))
(assert
 (let ((?x309 (select tape_plugins_s "signature_extensions")))
 (let (($x311 ((_ is vref ) ?x309)))
 (let (($x310 ((_ is absent ) ?x309)))
 (or $x310 $x311)))))
(assert
 (let ((?x314 (select tape_plugins_s "check_template")))
 (let (($x316 ((_ is vref ) ?x314)))
 (let (($x315 ((_ is absent ) ?x314)))
 (or $x315 $x316)))))
(assert
 (< tape_cs_count tape_cs_limit))
(assert
 (let ((?x38 (seq.len tape_data)))
 (let (($x213 (<= tape_pointer ?x38)))
 (let (($x210 (<= 0 tape_pointer)))
 (and $x210 $x213)))))
(assert
 (let ((?x38 (seq.len tape_data)))
 (let ((?x1166 (+ tape_pointer 1)))
 (let (($x1173 (> ?x1166 ?x38)))
 (not $x1173)))))
(assert
 (let ((?x38 (seq.len tape_data)))
 (let ((?x1166 (+ tape_pointer 1)))
 (let (($x1282 (<= ?x1166 ?x38)))
 (let (($x1356 (<= 0 ?x1166)))
 (and $x1356 $x1282))))))
(assert
 (let ((?x1166 (+ tape_pointer 1)))
 (>= ?x1166 tape_pointer)))
(assert
 (let ((?x1166 (+ tape_pointer 1)))
 (let ((?x1353 (- ?x1166 tape_pointer)))
 (let ((?x1354 (seq.extract tape_data tape_pointer ?x1353)))
 (let ((?x1301 (select tape_defs_b ?x1354)))
 (and (distinct ?x1301 absent) true))))))
(assert
 (let ((?x1166 (+ tape_pointer 1)))
 (let ((?x1353 (- ?x1166 tape_pointer)))
 (let ((?x1354 (seq.extract tape_data tape_pointer ?x1353)))
 (let ((?x1301 (select tape_defs_b ?x1354)))
 ((_ is vref ) ?x1301))))))
(assert
 (let ((?x38 (seq.len tape_data)))
 (<= 0 ?x38)))
(assert
 (let (($x209 (<= stack_len stack_max_items)))
 (let (($x221 (<= 0 stack_len)))
 (and $x221 $x209))))
(assert
 (= stack_max_items stack_max_items))
(assert
 (forall ((q!53 Int) )(=> (and (>= q!53 0) (< q!53 stack_len)) (<= (seq.len (select stack_arr q!53)) stack_max_item_size)))
 )
(assert
 (let ((?x225 (select cache_s "returned")))
 (let (($x226 (and (distinct ?x225 absent) true)))
 (not $x226))))
(assert
 (let ((?x229 (select cache_s "sigfield1")))
 (let (($x231 ((_ is vbytes ) ?x229)))
 (let (($x230 ((_ is absent ) ?x229)))
 (or $x230 $x231)))))
(assert
 (let ((?x241 (select cache_s "sigfield2")))
 (let (($x243 ((_ is vbytes ) ?x241)))
 (let (($x242 ((_ is absent ) ?x241)))
 (or $x242 $x243)))))
(assert
 (let ((?x246 (select cache_s "sigfield3")))
 (let (($x248 ((_ is vbytes ) ?x246)))
 (let (($x247 ((_ is absent ) ?x246)))
 (or $x247 $x248)))))
(assert
 (let ((?x251 (select cache_s "sigfield4")))
 (let (($x253 ((_ is vbytes ) ?x251)))
 (let (($x252 ((_ is absent ) ?x251)))
 (or $x252 $x253)))))
(assert
 (let ((?x256 (select cache_s "sigfield5")))
 (let (($x258 ((_ is vbytes ) ?x256)))
 (let (($x257 ((_ is absent ) ?x256)))
 (or $x257 $x258)))))
(assert
 (let ((?x261 (select cache_s "sigfield6")))
 (let (($x263 ((_ is vbytes ) ?x261)))
 (let (($x262 ((_ is absent ) ?x261)))
 (or $x262 $x263)))))
(assert
 (let ((?x266 (select cache_s "sigfield7")))
 (let (($x268 ((_ is vbytes ) ?x266)))
 (let (($x267 ((_ is absent ) ?x266)))
 (or $x267 $x268)))))
(assert
 (let ((?x271 (select cache_s "sigfield8")))
 (let (($x273 ((_ is vbytes ) ?x271)))
 (let (($x272 ((_ is absent ) ?x271)))
 (or $x272 $x273)))))
(assert
 (let ((?x180 (select tape_flags_i 0)))
 (let (($x276 ((_ is vbool ) ?x180)))
 (let (($x275 ((_ is absent ) ?x180)))
 (or $x275 $x276)))))
(assert
 (let ((?x182 (select tape_flags_i 1)))
 (let (($x279 ((_ is vbool ) ?x182)))
 (let (($x278 ((_ is absent ) ?x182)))
 (or $x278 $x279)))))
(assert
 (let ((?x184 (select tape_flags_i 2)))
 (let (($x282 ((_ is vbool ) ?x184)))
 (let (($x281 ((_ is absent ) ?x184)))
 (or $x281 $x282)))))
(assert
 (let ((?x187 (select tape_flags_i 3)))
 (let (($x285 ((_ is vbool ) ?x187)))
 (let (($x284 ((_ is absent ) ?x187)))
 (or $x284 $x285)))))
(assert
 (let ((?x190 (select tape_flags_i 4)))
 (let (($x288 ((_ is vbool ) ?x190)))
 (let (($x287 ((_ is absent ) ?x190)))
 (or $x287 $x288)))))
(assert
 (let ((?x193 (select tape_flags_i 5)))
 (let (($x291 ((_ is vbool ) ?x193)))
 (let (($x290 ((_ is absent ) ?x193)))
 (or $x290 $x291)))))
(assert
 (let ((?x196 (select tape_flags_i 6)))
 (let (($x294 ((_ is vbool ) ?x196)))
 (let (($x293 ((_ is absent ) ?x196)))
 (or $x293 $x294)))))
(assert
 (let ((?x199 (select tape_flags_i 7)))
 (let (($x297 ((_ is vbool ) ?x199)))
 (let (($x296 ((_ is absent ) ?x199)))
 (or $x296 $x297)))))
(assert
 (let ((?x201 (select tape_flags_i 8)))
 (let (($x300 ((_ is vbool ) ?x201)))
 (let (($x299 ((_ is absent ) ?x201)))
 (or $x299 $x300)))))
(assert
 (let ((?x204 (select tape_flags_i 9)))
 (let (($x303 ((_ is vbool ) ?x204)))
 (let (($x302 ((_ is absent ) ?x204)))
 (or $x302 $x303)))))
(assert
 (let ((?x207 (select tape_flags_i 10)))
 (let (($x306 ((_ is vbool ) ?x207)))
 (let (($x305 ((_ is absent ) ?x207)))
 (or $x305 $x306)))))
(assert
 (let ((?x309 (select tape_plugins_s "signature_extensions")))
 (let (($x311 ((_ is vref ) ?x309)))
 (let (($x310 ((_ is absent ) ?x309)))
 (or $x310 $x311)))))
(assert
 (let ((?x314 (select tape_plugins_s "check_template")))
 (let (($x316 ((_ is vref ) ?x314)))
 (let (($x315 ((_ is absent ) ?x314)))
 (or $x315 $x316)))))
(assert
 (forall ((kb!54 (Seq (_ BitVec 8))) )(! (or ((_ is absent ) (select tape_defs_b kb!54)) ((_ is vref ) (select tape_defs_b kb!54))) :pattern ( (select tape_defs_b kb!54) )))
 )
(assert
 (>= |run_tape#0.stack.deque_len| 0))
(assert
 (= |outcome_run_tape#0| 1))
(assert
 (let ((?x38 (seq.len tape_data)))
 (let (($x1552 (<= |run_tape#0.tape.pointer| ?x38)))
 (let (($x1249 (<= 0 |run_tape#0.tape.pointer|)))
 (and $x1249 $x1552)))))
(assert
 (let (($x1197 (<= |run_tape#0.stack.deque_len| stack_max_items)))
 (let (($x1537 (<= 0 |run_tape#0.stack.deque_len|)))
 (and $x1537 $x1197))))
(assert
 (= stack_max_items stack_max_items))
(assert
 (forall ((q!55 Int) )(let ((?x1735 (select |run_tape#0.stack.deque_arr| q!55)))
 (let ((?x1567 (seq.len ?x1735)))
 (=> (and (>= q!55 0) (< q!55 |run_tape#0.stack.deque_len|)) (<= ?x1567 stack_max_item_size)))))
 )
(assert
 (let ((?x1731 (select |run_tape#0.cache_s| "sigfield1")))
 (let (($x1494 ((_ is vbytes ) ?x1731)))
 (let (($x1461 ((_ is absent ) ?x1731)))
 (or $x1461 $x1494)))))
(assert
 (let ((?x1538 (select |run_tape#0.cache_s| "sigfield2")))
 (let (($x1732 ((_ is vbytes ) ?x1538)))
 (let (($x1549 ((_ is absent ) ?x1538)))
 (or $x1549 $x1732)))))
(assert
 (let ((?x1581 (select |run_tape#0.cache_s| "sigfield3")))
 (let (($x1583 ((_ is vbytes ) ?x1581)))
 (let (($x1700 ((_ is absent ) ?x1581)))
 (or $x1700 $x1583)))))
(assert
 (let ((?x1633 (select |run_tape#0.cache_s| "sigfield4")))
 (let (($x1673 ((_ is vbytes ) ?x1633)))
 (let (($x1671 ((_ is absent ) ?x1633)))
 (or $x1671 $x1673)))))
(assert
 (let ((?x1560 (select |run_tape#0.cache_s| "sigfield5")))
 (let (($x1584 ((_ is vbytes ) ?x1560)))
 (let (($x1574 ((_ is absent ) ?x1560)))
 (or $x1574 $x1584)))))
(assert
 (let ((?x1576 (select |run_tape#0.cache_s| "sigfield6")))
 (let (($x1578 ((_ is vbytes ) ?x1576)))
 (let (($x1577 ((_ is absent ) ?x1576)))
 (or $x1577 $x1578)))))
(assert
 (let ((?x1580 (select |run_tape#0.cache_s| "sigfield7")))
 (let (($x1588 ((_ is vbytes ) ?x1580)))
 (let (($x1587 ((_ is absent ) ?x1580)))
 (or $x1587 $x1588)))))
(assert
 (let ((?x1571 (select |run_tape#0.cache_s| "sigfield8")))
 (let (($x1573 ((_ is vbytes ) ?x1571)))
 (let (($x1572 ((_ is absent ) ?x1571)))
 (or $x1572 $x1573)))))
(assert
 (let ((?x1597 (select |run_tape#0.tape.flags_i| 0)))
 (let (($x1596 ((_ is vbool ) ?x1597)))
 (let (($x1591 ((_ is absent ) ?x1597)))
 (or $x1591 $x1596)))))
(assert
 (let ((?x1598 (select |run_tape#0.tape.flags_i| 1)))
 (let (($x1607 ((_ is vbool ) ?x1598)))
 (let (($x1600 ((_ is absent ) ?x1598)))
 (or $x1600 $x1607)))))
(assert
 (let ((?x1599 (select |run_tape#0.tape.flags_i| 2)))
 (let (($x1592 ((_ is vbool ) ?x1599)))
 (let (($x1589 ((_ is absent ) ?x1599)))
 (or $x1589 $x1592)))))
(assert
 (let ((?x1440 (select |run_tape#0.tape.flags_i| 3)))
 (let (($x1610 ((_ is vbool ) ?x1440)))
 (let (($x1605 ((_ is absent ) ?x1440)))
 (or $x1605 $x1610)))))
(assert
 (let ((?x1612 (select |run_tape#0.tape.flags_i| 4)))
 (let (($x1603 ((_ is vbool ) ?x1612)))
 (let (($x1613 ((_ is absent ) ?x1612)))
 (or $x1613 $x1603)))))
(assert
 (let ((?x1602 (select |run_tape#0.tape.flags_i| 5)))
 (let (($x1645 ((_ is vbool ) ?x1602)))
 (let (($x1644 ((_ is absent ) ?x1602)))
 (or $x1644 $x1645)))))
(assert
 (let ((?x1616 (select |run_tape#0.tape.flags_i| 6)))
 (let (($x1618 ((_ is vbool ) ?x1616)))
 (let (($x1617 ((_ is absent ) ?x1616)))
 (or $x1617 $x1618)))))
(assert
 (let ((?x1620 (select |run_tape#0.tape.flags_i| 7)))
 (let (($x1408 ((_ is vbool ) ?x1620)))
 (let (($x1621 ((_ is absent ) ?x1620)))
 (or $x1621 $x1408)))))
(assert
 (let ((?x1629 (select |run_tape#0.tape.flags_i| 8)))
 (let (($x1661 ((_ is vbool ) ?x1629)))
 (let (($x1744 ((_ is absent ) ?x1629)))
 (or $x1744 $x1661)))))
(assert
 (let ((?x1642 (select |run_tape#0.tape.flags_i| 9)))
 (let (($x1691 ((_ is vbool ) ?x1642)))
 (let (($x1639 ((_ is absent ) ?x1642)))
 (or $x1639 $x1691)))))
(assert
 (let ((?x1649 (select |run_tape#0.tape.flags_i| 10)))
 (let (($x1658 ((_ is vbool ) ?x1649)))
 (let (($x1662 ((_ is absent ) ?x1649)))
 (or $x1662 $x1658)))))
(assert
 (let ((?x1655 (select |run_tape#0.tape.flags_s| "ts_threshold")))
 (and (distinct ?x1655 absent) true)))
(assert
 (let ((?x1664 (select |run_tape#0.tape.flags_s| "epoch_threshold")))
 (and (distinct ?x1664 absent) true)))
(assert
 (let ((?x1597 (select |run_tape#0.tape.flags_i| 0)))
 (and (distinct ?x1597 absent) true)))
(assert
 (let ((?x1598 (select |run_tape#0.tape.flags_i| 1)))
 (and (distinct ?x1598 absent) true)))
(assert
 (let ((?x1599 (select |run_tape#0.tape.flags_i| 2)))
 (and (distinct ?x1599 absent) true)))
(assert
 (let ((?x1440 (select |run_tape#0.tape.flags_i| 3)))
 (and (distinct ?x1440 absent) true)))
(assert
 (let ((?x1612 (select |run_tape#0.tape.flags_i| 4)))
 (and (distinct ?x1612 absent) true)))
(assert
 (let ((?x1602 (select |run_tape#0.tape.flags_i| 5)))
 (and (distinct ?x1602 absent) true)))
(assert
 (let ((?x1616 (select |run_tape#0.tape.flags_i| 6)))
 (and (distinct ?x1616 absent) true)))
(assert
 (let ((?x1620 (select |run_tape#0.tape.flags_i| 7)))
 (and (distinct ?x1620 absent) true)))
(assert
 (let ((?x1629 (select |run_tape#0.tape.flags_i| 8)))
 (and (distinct ?x1629 absent) true)))
(assert
 (let ((?x1642 (select |run_tape#0.tape.flags_i| 9)))
 (and (distinct ?x1642 absent) true)))
(assert
 (let ((?x1649 (select |run_tape#0.tape.flags_i| 10)))
 (and (distinct ?x1649 absent) true)))
(assert
 (forall ((kb!56 (Seq (_ BitVec 8))) )(! (or ((_ is absent ) (select |run_tape#0.tape.definitions_b| kb!56)) ((_ is vref ) (select |run_tape#0.tape.definitions_b| kb!56))) :pattern ( (select |run_tape#0.tape.definitions_b| kb!56) )))
 )
(assert
 (let ((?x1720 (select |run_tape#0.cache_s| "returned")))
 (let (($x1721 (and (distinct ?x1720 absent) true)))
 (not $x1721))))
(assert
 (<= 0 |run_tape#0.tape.pointer|))
(assert
 (let ((?x1299 (+ tape_cs_count 1)))
 (>= |run_tape#0.tape.callstack_count| ?x1299)))
(assert
 (let ((?x1510 (vbool true)))
 (let ((?x1714 (store |run_tape#0.cache_s| "returned" ?x1510)))
 (let ((?x1679 (store cache_s "returned" ?x1510)))
 (let (($x1716 (= ?x1679 ?x1714)))
 (let ((?x314 (select tape_plugins_s "check_template")))
 (let ((?x1697 (r ?x314)))
 (let ((?x1698 (ref_len ?x1697)))
 (let (($x316 ((_ is vref ) ?x314)))
 (let ((?x1677 (ite $x316 ?x1698 0)))
 (let (($x1715 (= 0 ?x1677)))
 (let ((?x309 (select tape_plugins_s "signature_extensions")))
 (let ((?x1652 (r ?x309)))
 (let ((?x1654 (ref_len ?x1652)))
 (let (($x311 ((_ is vref ) ?x309)))
 (let ((?x1653 (ite $x311 ?x1654 0)))
 (let (($x1709 (= 0 ?x1653)))
 (let (($x1678 (and $x1709 $x1715)))
 (=> $x1678 $x1716)))))))))))))))))))
(assert
 (let (($x1926 (>= |run_tape#0.tape.pointer| tape_pointer)))
(not $x1926)))
(check-sat)

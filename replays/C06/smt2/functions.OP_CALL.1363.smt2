; obligation functions.OP_CALL/post/OPC:pointer.monotone
; benchmark generated from python API
(set-info :status unknown)
(declare-sort F 0)
(declare-datatypes ((Val 0)) (((absent) (vnone) (vbool (b Bool)) (vint (i Int)) (vbytes (y (Seq (_ BitVec 8)))) (vstr (s String)) (vfloat (f F)) (vblist (la (Array Int (Seq (_ BitVec 8)))) (ll Int) (lt Bool)) (vref (r Int)) (vopq (o Int)))))
(declare-fun stack_len () Int)
(declare-fun tape_flags_s () (Array String Val))
(declare-fun tape_flags_i () (Array Int Val))
(declare-fun tape_defs_b () (Array (Seq (_ BitVec 8)) Val))
(declare-fun tape_data () (Seq (_ BitVec 8)))
(declare-fun tape_pointer () Int)
(declare-fun stack_max_items () Int)
(declare-fun stack_max_item_size () Int)
(declare-fun stack_arr () (Array Int (Seq (_ BitVec 8))))
(declare-fun cache_s () (Array String Val))
(declare-fun tape_plugins_s () (Array String Val))
(declare-fun tape_cs_limit () Int)
(declare-fun tape_cs_count () Int)
(assert
 (>= stack_len 0))
(assert
 (let ((?x175 (select tape_flags_s "ts_threshold")))
 (and (distinct ?x175 absent) true)))
(assert
 (let ((?x178 (select tape_flags_s "epoch_threshold")))
 (and (distinct ?x178 absent) true)))
(assert
 (let ((?x180 (select tape_flags_i 0)))
 (and (distinct ?x180 absent) true)))
(assert
 (let ((?x182 (select tape_flags_i 1)))
 (and (distinct ?x182 absent) true)))
(assert
 (let ((?x184 (select tape_flags_i 2)))
 (and (distinct ?x184 absent) true)))
(assert
 (let ((?x187 (select tape_flags_i 3)))
 (and (distinct ?x187 absent) true)))
(assert
 (let ((?x190 (select tape_flags_i 4)))
 (and (distinct ?x190 absent) true)))
(assert
 (let ((?x193 (select tape_flags_i 5)))
 (and (distinct ?x193 absent) true)))
(assert
 (let ((?x196 (select tape_flags_i 6)))
 (and (distinct ?x196 absent) true)))
(assert
 (let ((?x199 (select tape_flags_i 7)))
 (and (distinct ?x199 absent) true)))
(assert
 (let ((?x201 (select tape_flags_i 8)))
 (and (distinct ?x201 absent) true)))
(assert
 (let ((?x204 (select tape_flags_i 9)))
 (and (distinct ?x204 absent) true)))
(assert
 (let ((?x207 (select tape_flags_i 10)))
 (and (distinct ?x207 absent) true)))
(assert
 (forall ((kb!322 (Seq (_ BitVec 8))) )(! (or ((_ is absent ) (select tape_defs_b kb!322)) ((_ is vref ) (select tape_defs_b kb!322))) :pattern ( (select tape_defs_b kb!322) )))
 )
(assert
 (let ((?x38 (seq.len tape_data)))
 (let (($x213 (<= tape_pointer ?x38)))
 (let (($x210 (<= 0 tape_pointer)))
 (and $x210 $x213)))))
(assert
 (let (($x209 (<= stack_len stack_max_items)))
 (let (($x221 (<= 0 stack_len)))
 (and $x221 $x209))))
(assert
 (= stack_max_items stack_max_items))
(assert
 (forall ((q!323 Int) )(=> (and (>= q!323 0) (< q!323 stack_len)) (<= (seq.len (select stack_arr q!323)) stack_max_item_size)))
 )
(assert
 (let ((?x225 (select cache_s "returned")))
 (let (($x226 (and (distinct ?x225 absent) true)))
 (not $x226))))
(assert
 (let ((?x229 (select cache_s "sigfield1")))
 (let (($x231 ((_ is vbytes ) ?x229)))
 (let (($x230 ((_ is absent ) ?x229)))
 (or $x230 $x231)))))
(assert
 (let ((?x241 (select cache_s "sigfield2")))
 (let (($x243 ((_ is vbytes ) ?x241)))
 (let (($x242 ((_ is absent ) ?x241)))
 (or $x242 $x243)))))
(assert
 (let ((?x246 (select cache_s "sigfield3")))
 (let (($x248 ((_ is vbytes ) ?x246)))
 (let (($x247 ((_ is absent ) ?x246)))
 (or $x247 $x248)))))
(assert
 (let ((?x251 (select cache_s "sigfield4")))
 (let (($x253 ((_ is vbytes ) ?x251)))
 (let (($x252 ((_ is absent ) ?x251)))
 (or $x252 $x253)))))
(assert
 (let ((?x256 (select cache_s "sigfield5")))
 (let (($x258 ((_ is vbytes ) ?x256)))
 (let (($x257 ((_ is absent ) ?x256)))
 (or $x257 $x258)))))
(assert
 (let ((?x261 (select cache_s "sigfield6")))
 (let (($x263 ((_ is vbytes ) ?x261)))
 (let (($x262 ((_ is absent ) ?x261)))
 (or $x262 $x263)))))
(assert
 (let ((?x266 (select cache_s "sigfield7")))
 (let (($x268 ((_ is vbytes ) ?x266)))
 (let (($x267 ((_ is absent ) ?x266)))
 (or $x267 $x268)))))
(assert
 (let ((?x271 (select cache_s "sigfield8")))
 (let (($x273 ((_ is vbytes ) ?x271)))
 (let (($x272 ((_ is absent ) ?x271)))
 (or $x272 $x273)))))
(assert
 (let ((?x180 (select tape_flags_i 0)))
 (let (($x276 ((_ is vbool ) ?x180)))
 (let (($x275 ((_ is absent ) ?x180)))
 (or $x275 $x276)))))
(assert
 (let ((?x182 (select tape_flags_i 1)))
 (let (($x279 ((_ is vbool ) ?x182)))
 (let (($x278 ((_ is absent ) ?x182)))
 (or $x278 $x279)))))
(assert
 (let ((?x184 (select tape_flags_i 2)))
 (let (($x282 ((_ is vbool ) ?x184)))
 (let (($x281 ((_ is absent ) ?x184)))
 (or $x281 $x282)))))
(assert
 (let ((?x187 (select tape_flags_i 3)))
 (let (($x285 ((_ is vbool ) ?x187)))
 (let (($x284 ((_ is absent ) ?x187)))
 (or $x284 $x285)))))
(assert
 (let ((?x190 (select tape_flags_i 4)))
 (let (($x288 ((_ is vbool ) ?x190)))
 (let (($x287 ((_ is absent ) ?x190)))
 (or $x287 $x288)))))
(assert
 (let ((?x193 (select tape_flags_i 5)))
 (let (($x291 ((_ is vbool ) ?x193)))
 (let (($x290 ((_ is absent ) ?x193)))
 (or $x290 $x291)))))
(assert
 (let ((?x196 (select tape_flags_i 6)))
 (let (($x294 ((_ is vbool ) ?x196)))
 (let (($x293 ((_ is absent ) ?x196)))
 (or $x293 $x294)))))
(assert
 (let ((?x199 (select tape_flags_i 7)))
 (let (($x297 ((_ is vbool ) ?x199)))
 (let (($x296 ((_ is absent ) ?x199)))
 (or $x296 $x297)))))
(assert
 (let ((?x201 (select tape_flags_i 8)))
 (let (($x300 ((_ is vbool ) ?x201)))
 (let (($x299 ((_ is absent ) ?x201)))
 (or $x299 $x300)))))
(assert
 (let ((?x204 (select tape_flags_i 9)))
 (let (($x303 ((_ is vbool ) ?x204)))
 (let (($x302 ((_ is absent ) ?x204)))
 (or $x302 $x303)))))
(assert
 (let ((?x207 (select tape_flags_i 10)))
 (let (($x306 ((_ is vbool ) ?x207)))
 (let (($x305 ((_ is absent ) ?x207)))
 (or $x305 $x306)))))
(assert
 (let ((?x309 (select tape_plugins_s "signature_extensions")))
 (let (($x311 ((_ is vref ) ?x309)))
 (let (($x310 ((_ is absent ) ?x309)))
 (or $x310 $x311)))))
(assert
 (let ((?x314 (select tape_plugins_s "check_template")))
 (let (($x316 ((_ is vref ) ?x314)))
 (let (($x315 ((_ is absent ) ?x314)))
 (or $x315 $x316)))))
(assert
 (let (($x1230 (< tape_cs_count tape_cs_limit)))
 (not $x1230)))
(assert
 (let (($x14788 (>= tape_pointer tape_pointer)))
(not $x14788)))
(check-sat)

; obligation functions.run_plugins/post/sigfield2.bytes
; benchmark generated from python API
(set-info :status unknown)
(declare-sort F 0)
(declare-datatypes ((Val 0)) (((absent) (vnone) (vbool (b Bool)) (vint (i Int)) (vbytes (y (Seq (_ BitVec 8)))) (vstr (s String)) (vfloat (f F)) (vblist (la (Array Int (Seq (_ BitVec 8)))) (ll Int) (lt Bool)) (vref (r Int)) (vopq (o Int)))))
(declare-fun stack_len () Int)
(declare-fun scope () String)
(declare-fun tape_plugins_s () (Array String Val))
(declare-fun cache_s () (Array String Val))
(assert
 (>= stack_len 0))
(assert
 (let ((?x257 (select tape_plugins_s scope)))
 (let (($x258 (and (distinct ?x257 absent) true)))
 (not $x258))))
(assert
 (let (($x204 (or ((_ is absent ) (select cache_s "sigfield2")) ((_ is vbytes ) (select cache_s "sigfield2")))))
(not $x204)))
(check-sat)

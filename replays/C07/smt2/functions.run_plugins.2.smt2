; obligation functions.run_plugins/post/stack.item-size
; benchmark generated from python API
(set-info :status unknown)
(declare-sort F 0)
(declare-datatypes ((Val 0)) (((absent) (vnone) (vbool (b Bool)) (vint (i Int)) (vbytes (y (Seq (_ BitVec 8)))) (vstr (s String)) (vfloat (f F)) (vblist (la (Array Int (Seq (_ BitVec 8)))) (ll Int) (lt Bool)) (vref (r Int)) (vopq (o Int)))))
(declare-fun stack_len () Int)
(declare-fun scope () String)
(declare-fun tape_plugins_s () (Array String Val))
(declare-fun stack_max_item_size () Int)
(declare-fun stack_arr () (Array Int (Seq (_ BitVec 8))))
(assert
 (>= stack_len 0))
(assert
 (let ((?x257 (select tape_plugins_s scope)))
 (let (($x258 (and (distinct ?x257 absent) true)))
 (not $x258))))
(assert
 (let (($x202 (forall ((q!1 Int) )(=> (and (>= q!1 0) (< q!1 stack_len)) (<= (seq.len (select stack_arr q!1)) stack_max_item_size)))
))
(not $x202)))
(check-sat)

; obligation functions.OP_EVAL/refine/args[run_tape#0]/additional_flags
; benchmark generated from python API
(set-info :status unknown)
(declare-sort F 0)
(declare-datatypes ((Val 0)) (((absent) (vnone) (vbool (b Bool)) (vint (i Int)) (vbytes (y (Seq (_ BitVec 8)))) (vstr (s String)) (vfloat (f F)) (vblist (la (Array Int (Seq (_ BitVec 8)))) (ll Int) (lt Bool)) (vref (r Int)) (vopq (o Int)))))
(declare-fun stack_len () Int)
(declare-fun tape_flags_s () (Array String Val))
(declare-fun tape_flags_i () (Array Int Val))
(declare-fun tape_defs_b () (Array (Seq (_ BitVec 8)) Val))
(declare-fun tape_data () (Seq (_ BitVec 8)))
(declare-fun tape_pointer () Int)
(declare-fun stack_max_items () Int)
(declare-fun stack_max_item_size () Int)
(declare-fun stack_arr () (Array Int (Seq (_ BitVec 8))))
(declare-fun cache_s () (Array String Val))
(declare-fun tape_plugins_s () (Array String Val))
(declare-fun tape_cs_limit () Int)
(declare-fun tape_cs_count () Int)
(declare-fun |run_tape#0.stack.deque_len| () Int)
(declare-fun |outcome_run_tape#0| () Int)
(declare-fun |run_tape#0.tape.pointer| () Int)
(declare-fun |run_tape#0.stack.deque_arr| () (Array Int (Seq (_ BitVec 8))))
(declare-fun |run_tape#0.cache_s| () (Array String Val))
(declare-fun |run_tape#0.tape.flags_i| () (Array Int Val))
(declare-fun |run_tape#0.tape.flags_s| () (Array String Val))
(declare-fun |run_tape#0.tape.definitions_b| () (Array (Seq (_ BitVec 8)) Val))
(declare-fun |run_tape#0.tape.callstack_count| () Int)
(declare-fun ref_len (Int) Int)
(assert
 (>= stack_len 0))
(assert
 (let ((?x175 (select tape_flags_s "ts_threshold")))
 (and (distinct ?x175 absent) true)))
(assert
 (let ((?x178 (select tape_flags_s "epoch_threshold")))
 (and (distinct ?x178 absent) true)))
(assert
 (let ((?x180 (select tape_flags_i 0)))
 (and (distinct ?x180 absent) true)))
(assert
 (let ((?x182 (select tape_flags_i 1)))
 (and (distinct ?x182 absent) true)))
(assert
 (let ((?x184 (select tape_flags_i 2)))
 (and (distinct ?x184 absent) true)))
(assert
 (let ((?x187 (select tape_flags_i 3)))
 (and (distinct ?x187 absent) true)))
(assert
 (let ((?x190 (select tape_flags_i 4)))
 (and (distinct ?x190 absent) true)))
(assert
 (let ((?x193 (select tape_flags_i 5)))
 (and (distinct ?x193 absent) true)))
(assert
 (let ((?x196 (select tape_flags_i 6)))
 (and (distinct ?x196 absent) true)))
(assert
 (let ((?x199 (select tape_flags_i 7)))
 (and (distinct ?x199 absent) true)))
(assert
 (let ((?x201 (select tape_flags_i 8)))
 (and (distinct ?x201 absent) true)))
(assert
 (let ((?x204 (select tape_flags_i 9)))
 (and (distinct ?x204 absent) true)))
(assert
 (let ((?x207 (select tape_flags_i 10)))
 (and (distinct ?x207 absent) true)))
(assert
 (forall ((kb!272 (Seq (_ BitVec 8))) )(! (or ((_ is absent ) (select tape_defs_b kb!272)) ((_ is vref ) (select tape_defs_b kb!272))) :pattern ( (select tape_defs_b kb!272) )))
 )
(assert
 (let ((?x38 (seq.len tape_data)))
 (let (($x213 (<= tape_pointer ?x38)))
 (let (($x210 (<= 0 tape_pointer)))
 (and $x210 $x213)))))
(assert
 (let (($x209 (<= stack_len stack_max_items)))
 (let (($x221 (<= 0 stack_len)))
 (and $x221 $x209))))
(assert
 (= stack_max_items stack_max_items))
(assert
 (forall ((q!273 Int) )(let ((?x232 (select stack_arr q!273)))
 (let ((?x233 (seq.len ?x232)))
 (let (($x234 (<= ?x233 stack_max_item_size)))
 (=> (and (>= q!273 0) (< q!273 stack_len)) $x234)))))
 )
(assert
 (let ((?x225 (select cache_s "returned")))
 (let (($x226 (and (distinct ?x225 absent) true)))
 (not $x226))))
(assert
 (let ((?x229 (select cache_s "sigfield1")))
 (let (($x231 ((_ is vbytes ) ?x229)))
 (let (($x230 ((_ is absent ) ?x229)))
 (or $x230 $x231)))))
(assert
 (let ((?x241 (select cache_s "sigfield2")))
 (let (($x243 ((_ is vbytes ) ?x241)))
 (let (($x242 ((_ is absent ) ?x241)))
 (or $x242 $x243)))))
(assert
 (let ((?x246 (select cache_s "sigfield3")))
 (let (($x248 ((_ is vbytes ) ?x246)))
 (let (($x247 ((_ is absent ) ?x246)))
 (or $x247 $x248)))))
(assert
 (let ((?x251 (select cache_s "sigfield4")))
 (let (($x253 ((_ is vbytes ) ?x251)))
 (let (($x252 ((_ is absent ) ?x251)))
 (or $x252 $x253)))))
(assert
 (let ((?x256 (select cache_s "sigfield5")))
 (let (($x258 ((_ is vbytes ) ?x256)))
 (let (($x257 ((_ is absent ) ?x256)))
 (or $x257 $x258)))))
(assert
 (let ((?x261 (select cache_s "sigfield6")))
 (let (($x263 ((_ is vbytes ) ?x261)))
 (let (($x262 ((_ is absent ) ?x261)))
 (or $x262 $x263)))))
(assert
 (let ((?x266 (select cache_s "sigfield7")))
 (let (($x268 ((_ is vbytes ) ?x266)))
 (let (($x267 ((_ is absent ) ?x266)))
 (or $x267 $x268)))))
(assert
 (let ((?x271 (select cache_s "sigfield8")))
 (let (($x273 ((_ is vbytes ) ?x271)))
 (let (($x272 ((_ is absent ) ?x271)))
 (or $x272 $x273)))))
(assert
 (let ((?x180 (select tape_flags_i 0)))
 (let (($x276 ((_ is vbool ) ?x180)))
 (let (($x275 ((_ is absent ) ?x180)))
 (or $x275 $x276)))))
(assert
 (let ((?x182 (select tape_flags_i 1)))
 (let (($x279 ((_ is vbool ) ?x182)))
 (let (($x278 ((_ is absent ) ?x182)))
 (or $x278 $x279)))))
(assert
 (let ((?x184 (select tape_flags_i 2)))
 (let (($x282 ((_ is vbool ) ?x184)))
 (let (($x281 ((_ is absent ) ?x184)))
 (or $x281 $x282)))))
(assert
 (let ((?x187 (select tape_flags_i 3)))
 (let (($x285 ((_ is vbool ) ?x187)))
 (let (($x284 ((_ is absent ) ?x187)))
 (or $x284 $x285)))))
(assert
 (let ((?x190 (select tape_flags_i 4)))
 (let (($x288 ((_ is vbool ) ?x190)))
 (let (($x287 ((_ is absent ) ?x190)))
 (or $x287 $x288)))))
(assert
 (let ((?x193 (select tape_flags_i 5)))
 (let (($x291 ((_ is vbool ) ?x193)))
 (let (($x290 ((_ is absent ) ?x193)))
 (or $x290 $x291)))))
(assert
 (let ((?x196 (select tape_flags_i 6)))
 (let (($x294 ((_ is vbool ) ?x196)))
 (let (($x293 ((_ is absent ) ?x196)))
 (or $x293 $x294)))))
(assert
 (let ((?x199 (select tape_flags_i 7)))
 (let (($x297 ((_ is vbool ) ?x199)))
 (let (($x296 ((_ is absent ) ?x199)))
 (or $x296 $x297)))))
(assert
 (let ((?x201 (select tape_flags_i 8)))
 (let (($x300 ((_ is vbool ) ?x201)))
 (let (($x299 ((_ is absent ) ?x201)))
 (or $x299 $x300)))))
(assert
 (let ((?x204 (select tape_flags_i 9)))
 (let (($x303 ((_ is vbool ) ?x204)))
 (let (($x302 ((_ is absent ) ?x204)))
 (or $x302 $x303)))))
(assert
 (let ((?x207 (select tape_flags_i 10)))
 (let (($x306 ((_ is vbool ) ?x207)))
 (let (($x305 ((_ is absent ) ?x207)))
 (or $x305 $x306)))))
(assert
 (let ((?x309 (select tape_plugins_s "signature_extensions")))
 (let (($x311 ((_ is vref ) ?x309)))
 (let (($x310 ((_ is absent ) ?x309)))
 (or $x310 $x311)))))
(assert
 (let ((?x314 (select tape_plugins_s "check_template")))
 (let (($x316 ((_ is vref ) ?x314)))
 (let (($x315 ((_ is absent ) ?x314)))
 (or $x315 $x316)))))
(assert
 (let ((?x1225 (select tape_flags_s "disallow_OP_EVAL")))
 (let (($x1218 (and (distinct ?x1225 absent) true)))
 (not $x1218))))
(assert
 (< tape_cs_count tape_cs_limit))
(assert
 (let (($x209 (<= stack_len stack_max_items)))
 (let (($x221 (<= 0 stack_len)))
 (and $x221 $x209))))
(assert
 (= stack_max_items stack_max_items))
(assert
 (forall ((q!274 Int) )(let ((?x232 (select stack_arr q!274)))
 (let ((?x233 (seq.len ?x232)))
 (let (($x234 (<= ?x233 stack_max_item_size)))
 (=> (and (>= q!274 0) (< q!274 stack_len)) $x234)))))
 )
(assert
 (let (($x1370 (= 0 stack_len)))
 (not $x1370)))
(assert
 (> stack_len 0))
(assert
 (let ((?x1209 (+ (- 1) stack_len)))
 (let (($x1399 (<= ?x1209 stack_max_items)))
 (let (($x1441 (<= 0 ?x1209)))
 (and $x1441 $x1399)))))
(assert
 (= stack_max_items stack_max_items))
(assert
 (forall ((q!275 Int) )(let ((?x232 (select stack_arr q!275)))
 (let ((?x233 (seq.len ?x232)))
 (let (($x234 (<= ?x233 stack_max_item_size)))
 (=> (and (>= q!275 0) (< q!275 (+ (- 1) stack_len))) $x234)))))
 )
(assert
 (let ((?x1209 (+ (- 1) stack_len)))
 (let ((?x1207 (select stack_arr ?x1209)))
 (let ((?x1416 (seq.len ?x1207)))
 (<= ?x1416 stack_max_item_size)))))
(assert
 (let ((?x1209 (+ (- 1) stack_len)))
 (let ((?x1207 (select stack_arr ?x1209)))
 (let ((?x1416 (seq.len ?x1207)))
 (< 0 ?x1416)))))
(assert
 (let ((?x1209 (+ (- 1) stack_len)))
 (let ((?x1207 (select stack_arr ?x1209)))
 (let ((?x1416 (seq.len ?x1207)))
 (<= 0 ?x1416)))))
(assert
 (let ((?x1209 (+ (- 1) stack_len)))
 (let (($x1399 (<= ?x1209 stack_max_items)))
 (let (($x1441 (<= 0 ?x1209)))
 (and $x1441 $x1399)))))
(assert
 (= stack_max_items stack_max_items))
(assert
 (forall ((q!276 Int) )(let ((?x232 (select stack_arr q!276)))
 (let ((?x233 (seq.len ?x232)))
 (let (($x234 (<= ?x233 stack_max_item_size)))
 (=> (and (>= q!276 0) (< q!276 (+ (- 1) stack_len))) $x234)))))
 )
(assert
 (let ((?x225 (select cache_s "returned")))
 (let (($x226 (and (distinct ?x225 absent) true)))
 (not $x226))))
(assert
 (let ((?x229 (select cache_s "sigfield1")))
 (let (($x231 ((_ is vbytes ) ?x229)))
 (let (($x230 ((_ is absent ) ?x229)))
 (or $x230 $x231)))))
(assert
 (let ((?x241 (select cache_s "sigfield2")))
 (let (($x243 ((_ is vbytes ) ?x241)))
 (let (($x242 ((_ is absent ) ?x241)))
 (or $x242 $x243)))))
(assert
 (let ((?x246 (select cache_s "sigfield3")))
 (let (($x248 ((_ is vbytes ) ?x246)))
 (let (($x247 ((_ is absent ) ?x246)))
 (or $x247 $x248)))))
(assert
 (let ((?x251 (select cache_s "sigfield4")))
 (let (($x253 ((_ is vbytes ) ?x251)))
 (let (($x252 ((_ is absent ) ?x251)))
 (or $x252 $x253)))))
(assert
 (let ((?x256 (select cache_s "sigfield5")))
 (let (($x258 ((_ is vbytes ) ?x256)))
 (let (($x257 ((_ is absent ) ?x256)))
 (or $x257 $x258)))))
(assert
 (let ((?x261 (select cache_s "sigfield6")))
 (let (($x263 ((_ is vbytes ) ?x261)))
 (let (($x262 ((_ is absent ) ?x261)))
 (or $x262 $x263)))))
(assert
 (let ((?x266 (select cache_s "sigfield7")))
 (let (($x268 ((_ is vbytes ) ?x266)))
 (let (($x267 ((_ is absent ) ?x266)))
 (or $x267 $x268)))))
(assert
 (let ((?x271 (select cache_s "sigfield8")))
 (let (($x273 ((_ is vbytes ) ?x271)))
 (let (($x272 ((_ is absent ) ?x271)))
 (or $x272 $x273)))))
(assert
 (let ((?x309 (select tape_plugins_s "signature_extensions")))
 (let (($x311 ((_ is vref ) ?x309)))
 (let (($x310 ((_ is absent ) ?x309)))
 (or $x310 $x311)))))
(assert
 (let ((?x314 (select tape_plugins_s "check_template")))
 (let (($x316 ((_ is vref ) ?x314)))
 (let (($x315 ((_ is absent ) ?x314)))
 (or $x315 $x316)))))
(assert
 (forall ((kb!277 (Seq (_ BitVec 8))) )(! (or ((_ is absent ) (select tape_defs_b kb!277)) ((_ is vref ) (select tape_defs_b kb!277))) :pattern ( (select tape_defs_b kb!277) )))
 )
(assert
 (>= |run_tape#0.stack.deque_len| 0))
(assert
 (= |outcome_run_tape#0| 0))
(assert
 (let ((?x1209 (+ (- 1) stack_len)))
 (let ((?x1207 (select stack_arr ?x1209)))
 (let ((?x1416 (seq.len ?x1207)))
 (let (($x1482 (<= |run_tape#0.tape.pointer| ?x1416)))
 (let (($x1386 (<= 0 |run_tape#0.tape.pointer|)))
 (and $x1386 $x1482)))))))
(assert
 (let (($x1424 (<= |run_tape#0.stack.deque_len| stack_max_items)))
 (let (($x1545 (<= 0 |run_tape#0.stack.deque_len|)))
 (and $x1545 $x1424))))
(assert
 (= stack_max_items stack_max_items))
(assert
 (forall ((q!278 Int) )(let ((?x1524 (select |run_tape#0.stack.deque_arr| q!278)))
 (let ((?x1504 (seq.len ?x1524)))
 (=> (and (>= q!278 0) (< q!278 |run_tape#0.stack.deque_len|)) (<= ?x1504 stack_max_item_size)))))
 )
(assert
 (let ((?x1539 (select |run_tape#0.cache_s| "sigfield1")))
 (let (($x1519 ((_ is vbytes ) ?x1539)))
 (let (($x1535 ((_ is absent ) ?x1539)))
 (or $x1535 $x1519)))))
(assert
 (let ((?x1528 (select |run_tape#0.cache_s| "sigfield2")))
 (let (($x1525 ((_ is vbytes ) ?x1528)))
 (let (($x1551 ((_ is absent ) ?x1528)))
 (or $x1551 $x1525)))))
(assert
 (let ((?x1499 (select |run_tape#0.cache_s| "sigfield3")))
 (let (($x1557 ((_ is vbytes ) ?x1499)))
 (let (($x1556 ((_ is absent ) ?x1499)))
 (or $x1556 $x1557)))))
(assert
 (let ((?x1559 (select |run_tape#0.cache_s| "sigfield4")))
 (let (($x1561 ((_ is vbytes ) ?x1559)))
 (let (($x1560 ((_ is absent ) ?x1559)))
 (or $x1560 $x1561)))))
(assert
 (let ((?x1563 (select |run_tape#0.cache_s| "sigfield5")))
 (let (($x1565 ((_ is vbytes ) ?x1563)))
 (let (($x1564 ((_ is absent ) ?x1563)))
 (or $x1564 $x1565)))))
(assert
 (let ((?x1567 (select |run_tape#0.cache_s| "sigfield6")))
 (let (($x1569 ((_ is vbytes ) ?x1567)))
 (let (($x1568 ((_ is absent ) ?x1567)))
 (or $x1568 $x1569)))))
(assert
 (let ((?x1572 (select |run_tape#0.cache_s| "sigfield7")))
 (let (($x1574 ((_ is vbytes ) ?x1572)))
 (let (($x1573 ((_ is absent ) ?x1572)))
 (or $x1573 $x1574)))))
(assert
 (let ((?x1576 (select |run_tape#0.cache_s| "sigfield8")))
 (let (($x1624 ((_ is vbytes ) ?x1576)))
 (let (($x1621 ((_ is absent ) ?x1576)))
 (or $x1621 $x1624)))))
(assert
 (let ((?x1601 (select |run_tape#0.tape.flags_i| 0)))
 (let (($x1612 ((_ is vbool ) ?x1601)))
 (let (($x1617 ((_ is absent ) ?x1601)))
 (or $x1617 $x1612)))))
(assert
 (let ((?x1609 (select |run_tape#0.tape.flags_i| 1)))
 (let (($x1607 ((_ is vbool ) ?x1609)))
 (let (($x1599 ((_ is absent ) ?x1609)))
 (or $x1599 $x1607)))))
(assert
 (let ((?x1580 (select |run_tape#0.tape.flags_i| 2)))
 (let (($x1594 ((_ is vbool ) ?x1580)))
 (let (($x1603 ((_ is absent ) ?x1580)))
 (or $x1603 $x1594)))))
(assert
 (let ((?x1623 (select |run_tape#0.tape.flags_i| 3)))
 (let (($x1618 ((_ is vbool ) ?x1623)))
 (let (($x1597 ((_ is absent ) ?x1623)))
 (or $x1597 $x1618)))))
(assert
 (let ((?x1587 (select |run_tape#0.tape.flags_i| 4)))
 (let (($x1584 ((_ is vbool ) ?x1587)))
 (let (($x1613 ((_ is absent ) ?x1587)))
 (or $x1613 $x1584)))))
(assert
 (let ((?x1593 (select |run_tape#0.tape.flags_i| 5)))
 (let (($x1608 ((_ is vbool ) ?x1593)))
 (let (($x1578 ((_ is absent ) ?x1593)))
 (or $x1578 $x1608)))))
(assert
 (let ((?x1620 (select |run_tape#0.tape.flags_i| 6)))
 (let (($x1616 ((_ is vbool ) ?x1620)))
 (let (($x1585 ((_ is absent ) ?x1620)))
 (or $x1585 $x1616)))))
(assert
 (let ((?x1591 (select |run_tape#0.tape.flags_i| 7)))
 (let (($x1606 ((_ is vbool ) ?x1591)))
 (let (($x1583 ((_ is absent ) ?x1591)))
 (or $x1583 $x1606)))))
(assert
 (let ((?x1596 (select |run_tape#0.tape.flags_i| 8)))
 (let (($x1604 ((_ is vbool ) ?x1596)))
 (let (($x1615 ((_ is absent ) ?x1596)))
 (or $x1615 $x1604)))))
(assert
 (let ((?x1598 (select |run_tape#0.tape.flags_i| 9)))
 (let (($x1602 ((_ is vbool ) ?x1598)))
 (let (($x1619 ((_ is absent ) ?x1598)))
 (or $x1619 $x1602)))))
(assert
 (let ((?x1592 (select |run_tape#0.tape.flags_i| 10)))
 (let (($x1600 ((_ is vbool ) ?x1592)))
 (let (($x1586 ((_ is absent ) ?x1592)))
 (or $x1586 $x1600)))))
(assert
 (let ((?x1571 (select |run_tape#0.tape.flags_s| "ts_threshold")))
 (and (distinct ?x1571 absent) true)))
(assert
 (let ((?x1625 (select |run_tape#0.tape.flags_s| "epoch_threshold")))
 (and (distinct ?x1625 absent) true)))
(assert
 (let ((?x1601 (select |run_tape#0.tape.flags_i| 0)))
 (and (distinct ?x1601 absent) true)))
(assert
 (let ((?x1609 (select |run_tape#0.tape.flags_i| 1)))
 (and (distinct ?x1609 absent) true)))
(assert
 (let ((?x1580 (select |run_tape#0.tape.flags_i| 2)))
 (and (distinct ?x1580 absent) true)))
(assert
 (let ((?x1623 (select |run_tape#0.tape.flags_i| 3)))
 (and (distinct ?x1623 absent) true)))
(assert
 (let ((?x1587 (select |run_tape#0.tape.flags_i| 4)))
 (and (distinct ?x1587 absent) true)))
(assert
 (let ((?x1593 (select |run_tape#0.tape.flags_i| 5)))
 (and (distinct ?x1593 absent) true)))
(assert
 (let ((?x1620 (select |run_tape#0.tape.flags_i| 6)))
 (and (distinct ?x1620 absent) true)))
(assert
 (let ((?x1591 (select |run_tape#0.tape.flags_i| 7)))
 (and (distinct ?x1591 absent) true)))
(assert
 (let ((?x1596 (select |run_tape#0.tape.flags_i| 8)))
 (and (distinct ?x1596 absent) true)))
(assert
 (let ((?x1598 (select |run_tape#0.tape.flags_i| 9)))
 (and (distinct ?x1598 absent) true)))
(assert
 (let ((?x1592 (select |run_tape#0.tape.flags_i| 10)))
 (and (distinct ?x1592 absent) true)))
(assert
 (forall ((kb!279 (Seq (_ BitVec 8))) )(! (or ((_ is absent ) (select |run_tape#0.tape.definitions_b| kb!279)) ((_ is vref ) (select |run_tape#0.tape.definitions_b| kb!279))) :pattern ( (select |run_tape#0.tape.definitions_b| kb!279) )))
 )
(assert
 (let ((?x1209 (+ (- 1) stack_len)))
 (let ((?x1207 (select stack_arr ?x1209)))
 (let ((?x1416 (seq.len ?x1207)))
 (= |run_tape#0.tape.pointer| ?x1416)))))
(assert
 (<= 0 |run_tape#0.tape.pointer|))
(assert
 (let ((?x1384 (+ tape_cs_count 1)))
 (>= |run_tape#0.tape.callstack_count| ?x1384)))
(assert
 (let ((?x1480 (vbool true)))
 (let ((?x1655 (store |run_tape#0.cache_s| "returned" ?x1480)))
 (let ((?x1654 (store cache_s "returned" ?x1480)))
 (let (($x1657 (= ?x1654 ?x1655)))
 (let ((?x314 (select tape_plugins_s "check_template")))
 (let ((?x1650 (r ?x314)))
 (let ((?x1651 (ref_len ?x1650)))
 (let (($x316 ((_ is vref ) ?x314)))
 (let ((?x1652 (ite $x316 ?x1651 0)))
 (let (($x1656 (= 0 ?x1652)))
 (let ((?x309 (select tape_plugins_s "signature_extensions")))
 (let ((?x1639 (r ?x309)))
 (let ((?x1641 (ref_len ?x1639)))
 (let (($x311 ((_ is vref ) ?x309)))
 (let ((?x1640 (ite $x311 ?x1641 0)))
 (let (($x1643 (= 0 ?x1640)))
 (let (($x1653 (and $x1643 $x1656)))
 (=> $x1653 $x1657)))))))))))))))))))
(assert
 (let ((?x1494 (select |run_tape#0.cache_s| "returned")))
 (and (distinct ?x1494 absent) true)))
(assert
 (let ((?x1757 (select tape_flags_s "eval_return")))
 (let (($x1758 (and (distinct ?x1757 absent) true)))
 (not $x1758))))
(assert
 (let ((?x1757 (select tape_flags_s "eval_return")))
 (let (($x1758 (and (distinct ?x1757 absent) true)))
 (not $x1758))))
(assert
 (let ((?x1494 (select |run_tape#0.cache_s| "returned")))
 (and (distinct ?x1494 absent) true)))
(assert
 (let ((?x1225 (select tape_flags_s "disallow_OP_EVAL")))
 (let (($x1218 (and (distinct ?x1225 absent) true)))
 (not $x1218))))
(assert
 (let (($x1371 (>= tape_cs_count tape_cs_limit)))
 (not $x1371)))
(assert
 (let (($x209 (<= stack_len stack_max_items)))
 (let (($x221 (<= 0 stack_len)))
 (and $x221 $x209))))
(assert
 (= stack_max_items stack_max_items))
(assert
 (forall ((q!280 Int) )(let ((?x232 (select stack_arr q!280)))
 (let ((?x233 (seq.len ?x232)))
 (let (($x234 (<= ?x233 stack_max_item_size)))
 (=> (and (>= q!280 0) (< q!280 stack_len)) $x234)))))
 )
(assert
 (let (($x1370 (= 0 stack_len)))
 (not $x1370)))
(assert
 (> stack_len 0))
(assert
 (let ((?x1209 (+ (- 1) stack_len)))
 (let (($x1399 (<= ?x1209 stack_max_items)))
 (let (($x1441 (<= 0 ?x1209)))
 (and $x1441 $x1399)))))
(assert
 (= stack_max_items stack_max_items))
(assert
 (forall ((q!281 Int) )(let ((?x232 (select stack_arr q!281)))
 (let ((?x233 (seq.len ?x232)))
 (let (($x234 (<= ?x233 stack_max_item_size)))
 (=> (and (>= q!281 0) (< q!281 (+ (- 1) stack_len))) $x234)))))
 )
(assert
 (let ((?x1209 (+ (- 1) stack_len)))
 (let ((?x1207 (select stack_arr ?x1209)))
 (let ((?x1416 (seq.len ?x1207)))
 (<= ?x1416 stack_max_item_size)))))
(assert
 (let ((?x1209 (+ (- 1) stack_len)))
 (let ((?x1207 (select stack_arr ?x1209)))
 (let ((?x1416 (seq.len ?x1207)))
 (let (($x1948 (= 0 ?x1416)))
 (not $x1948))))))
(assert
 (let ((?x1209 (+ (- 1) stack_len)))
 (let ((?x1207 (select stack_arr ?x1209)))
 (let ((?x1416 (seq.len ?x1207)))
 (<= 0 ?x1416)))))
(assert
 (let ((?x1209 (+ (- 1) stack_len)))
 (let (($x1399 (<= ?x1209 stack_max_items)))
 (let (($x1441 (<= 0 ?x1209)))
 (and $x1441 $x1399)))))
(assert
 (= stack_max_items stack_max_items))
(assert
 (forall ((q!282 Int) )(let ((?x232 (select stack_arr q!282)))
 (let ((?x233 (seq.len ?x232)))
 (let (($x234 (<= ?x233 stack_max_item_size)))
 (=> (and (>= q!282 0) (< q!282 (+ (- 1) stack_len))) $x234)))))
 )
(assert
 (let ((?x225 (select cache_s "returned")))
 (let (($x226 (and (distinct ?x225 absent) true)))
 (not $x226))))
(assert
 (let ((?x229 (select cache_s "sigfield1")))
 (let (($x231 ((_ is vbytes ) ?x229)))
 (let (($x230 ((_ is absent ) ?x229)))
 (or $x230 $x231)))))
(assert
 (let ((?x241 (select cache_s "sigfield2")))
 (let (($x243 ((_ is vbytes ) ?x241)))
 (let (($x242 ((_ is absent ) ?x241)))
 (or $x242 $x243)))))
(assert
 (let ((?x246 (select cache_s "sigfield3")))
 (let (($x248 ((_ is vbytes ) ?x246)))
 (let (($x247 ((_ is absent ) ?x246)))
 (or $x247 $x248)))))
(assert
 (let ((?x251 (select cache_s "sigfield4")))
 (let (($x253 ((_ is vbytes ) ?x251)))
 (let (($x252 ((_ is absent ) ?x251)))
 (or $x252 $x253)))))
(assert
 (let ((?x256 (select cache_s "sigfield5")))
 (let (($x258 ((_ is vbytes ) ?x256)))
 (let (($x257 ((_ is absent ) ?x256)))
 (or $x257 $x258)))))
(assert
 (let ((?x261 (select cache_s "sigfield6")))
 (let (($x263 ((_ is vbytes ) ?x261)))
 (let (($x262 ((_ is absent ) ?x261)))
 (or $x262 $x263)))))
(assert
 (let ((?x266 (select cache_s "sigfield7")))
 (let (($x268 ((_ is vbytes ) ?x266)))
 (let (($x267 ((_ is absent ) ?x266)))
 (or $x267 $x268)))))
(assert
 (let ((?x271 (select cache_s "sigfield8")))
 (let (($x273 ((_ is vbytes ) ?x271)))
 (let (($x272 ((_ is absent ) ?x271)))
 (or $x272 $x273)))))
(assert
 (let ((?x180 (select tape_flags_i 0)))
 (let (($x276 ((_ is vbool ) ?x180)))
 (let (($x275 ((_ is absent ) ?x180)))
 (or $x275 $x276)))))
(assert
 (let ((?x182 (select tape_flags_i 1)))
 (let (($x279 ((_ is vbool ) ?x182)))
 (let (($x278 ((_ is absent ) ?x182)))
 (or $x278 $x279)))))
(assert
 (let ((?x184 (select tape_flags_i 2)))
 (let (($x282 ((_ is vbool ) ?x184)))
 (let (($x281 ((_ is absent ) ?x184)))
 (or $x281 $x282)))))
(assert
 (let ((?x187 (select tape_flags_i 3)))
 (let (($x285 ((_ is vbool ) ?x187)))
 (let (($x284 ((_ is absent ) ?x187)))
 (or $x284 $x285)))))
(assert
 (let ((?x190 (select tape_flags_i 4)))
 (let (($x288 ((_ is vbool ) ?x190)))
 (let (($x287 ((_ is absent ) ?x190)))
 (or $x287 $x288)))))
(assert
 (let ((?x193 (select tape_flags_i 5)))
 (let (($x291 ((_ is vbool ) ?x193)))
 (let (($x290 ((_ is absent ) ?x193)))
 (or $x290 $x291)))))
(assert
 (let ((?x196 (select tape_flags_i 6)))
 (let (($x294 ((_ is vbool ) ?x196)))
 (let (($x293 ((_ is absent ) ?x196)))
 (or $x293 $x294)))))
(assert
 (let ((?x199 (select tape_flags_i 7)))
 (let (($x297 ((_ is vbool ) ?x199)))
 (let (($x296 ((_ is absent ) ?x199)))
 (or $x296 $x297)))))
(assert
 (let ((?x201 (select tape_flags_i 8)))
 (let (($x300 ((_ is vbool ) ?x201)))
 (let (($x299 ((_ is absent ) ?x201)))
 (or $x299 $x300)))))
(assert
 (let ((?x204 (select tape_flags_i 9)))
 (let (($x303 ((_ is vbool ) ?x204)))
 (let (($x302 ((_ is absent ) ?x204)))
 (or $x302 $x303)))))
(assert
 (let ((?x207 (select tape_flags_i 10)))
 (let (($x306 ((_ is vbool ) ?x207)))
 (let (($x305 ((_ is absent ) ?x207)))
 (or $x305 $x306)))))
(assert
 (let ((?x309 (select tape_plugins_s "signature_extensions")))
 (let (($x311 ((_ is vref ) ?x309)))
 (let (($x310 ((_ is absent ) ?x309)))
 (or $x310 $x311)))))
(assert
 (let ((?x314 (select tape_plugins_s "check_template")))
 (let (($x316 ((_ is vref ) ?x314)))
 (let (($x315 ((_ is absent ) ?x314)))
 (or $x315 $x316)))))
(assert
 (forall ((kb!283 (Seq (_ BitVec 8))) )(! (or ((_ is absent ) (select tape_defs_b kb!283)) ((_ is vref ) (select tape_defs_b kb!283))) :pattern ( (select tape_defs_b kb!283) )))
 )
(assert
 (not false))
(check-sat)

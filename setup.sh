#!/bin/sh
# setup_cmd: build the offline verification venv (python 3.12 from /venv + wheels from the
# wheelhouse + a .pth that exposes the repository's own third-party deps, i.e. PyNaCl).
set -e
cd "$(dirname "$0")"
V=.venv
if [ -x "$V/bin/python" ] && "$V/bin/python" -c "import z3, nacl, jsonschema" 2>/dev/null; then
  echo "setup: venv already usable"; exit 0
fi
rm -rf "$V"
/venv/bin/python -m venv "$V"
PIP_NO_INDEX=1 "$V/bin/pip" install -q --no-index --find-links /opt/veriftools/wheels \
    z3-solver cvc5 jsonschema hypothesis crosshair-tool deal icontract
SP=$("$V/bin/python" -c "import sysconfig;print(sysconfig.get_paths()['purelib'])")
echo "import site; site.addsitedir('/venv/lib/python3.12/site-packages')" > "$SP/repo_deps.pth"
"$V/bin/python" -c "import z3, nacl, jsonschema; print('setup: ok z3', z3.get_version_string())"

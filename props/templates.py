"""Byte templates of the lock / witness builders: the documented output of each builder as a function
of its data arguments ("compile contract").  Each template is (a) validated natively against the REAL
builder on seeded samples on every run (translation validation, bounded -- labelled) and (b) used with
symbolic data in the lemmas.  The same python text serves both: natively it concatenates bytes, in the
executor the data holes are symbolic segments."""
import os
import sys

sys.path.insert(0, os.environ.get('VERIF_REPO', '/repo'))


def op(name):
    """opcode byte from the live table"""
    from tapescript.functions import opcodes_inverse
    return bytes([opcodes_inverse[name][0]])


def push(b):
    """OP_PUSH selects the smallest push instruction that fits (C11)"""
    n = len(b)
    if n == 1:
        return op('OP_PUSH0') + b
    if n < 256:
        return op('OP_PUSH1') + bytes([n]) + b
    return op('OP_PUSH2') + n.to_bytes(2, 'big') + b


def push1_sym(n_byte, b):
    """OP_PUSH1 with the length byte given separately (2 <= len <= 255)"""
    return op('OP_PUSH1') + n_byte + b


def t_timestamp_after(enc_ts, verify=False):
    return push(enc_ts) + op('OP_CHECK_TIMESTAMP_VERIFY' if verify else 'OP_CHECK_TIMESTAMP')


def t_timestamp_before(enc_ts, verify=False):
    return push(enc_ts) + op('OP_CHECK_TIMESTAMP') + op('OP_NOT') + (op('OP_VERIFY') if verify else b'')


def t_timestamp_between(enc_begin, enc_end, verify=False):
    return t_timestamp_after(enc_begin, True) + t_timestamp_before(enc_end, verify)

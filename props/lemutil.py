"""helpers shared by the lemma modules"""
import z3
from pyvc.sym import zint, mkbytes, sym_bytes, Seg, BYTE, bexpr
from props import templates as T


def ob(name, ok, info=None, backend='native', kind='template'):
    return {'name': name, 'kind': kind, 'status': 'discharged' if ok else 'failed', 'backend': backend,
            'time_s': 0.0, 'path': '', 'info': info or {}, 'inputs': None}


def push_var(ip, data, tag):
    """OP_PUSH of a byte string of symbolic length, as the compiler emits it: forks into the PUSH0 form
    (length 1) and the PUSH1 form (2..255); the length byte is a symbolic byte tied to the length, so
    that all tape positions stay syntactically consistent.  (Lengths 0 and > 255 are excluded by
    assumption and stated by the callers.)"""
    ctx = ip.ctx
    e = bexpr(data)
    n = z3.Length(e)
    if ctx.branch(n == 1, f'{tag}:len1'):
        return mkbytes([T.op('OP_PUSH0'), sym_bytes(e, 1)])
    nb = z3.BitVec(f'{tag}_lenbyte', 8)
    ln = z3.BV2Int(nb)
    ctx.assume(z3.And(n == ln, ln >= 2))
    return mkbytes([T.op('OP_PUSH1'), sym_bytes(z3.Unit(nb), 1), mkbytes([Seg(e, ln)])])


def push_fixed(data):
    """OP_PUSH of a byte string of concrete length (python bytes or SB with concrete length)"""
    n = data.length() if hasattr(data, 'length') else len(data)
    assert isinstance(n, int)
    if n == 1:
        return mkbytes([T.op('OP_PUSH0'), data])
    if n < 256:
        return mkbytes([T.op('OP_PUSH1'), bytes([n]), data])
    return mkbytes([T.op('OP_PUSH2'), n.to_bytes(2, 'big'), data])


def verdict_bool(ip, v):
    t = ip.truth(v)
    return z3.BoolVal(t) if isinstance(t, bool) else t

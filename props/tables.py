"""C20: invariants of the live opcode tables and the NOP compile / decompile handlers."""
import os
import sys

sys.path.insert(0, os.environ.get('VERIF_REPO', '/repo'))


def _ob(name, ok, info=None):
    return {'name': name, 'kind': 'table', 'status': 'discharged' if ok else 'failed', 'backend': 'native-exhaustive',
            'time_s': 0.0, 'path': '', 'info': info or {}, 'inputs': None}


def c20_tables(tier='quick', seed=0):
    import tapescript.functions as F
    import tapescript.parsing as P
    obs = []
    codes = set(F.opcodes) | set(F.nopcodes)
    obs.append(_ob('tables/partition', codes == set(range(256)) and not (set(F.opcodes) & set(F.nopcodes)),
                   {'missing': sorted(set(range(256)) - codes)[:8]}))
    obs.append(_ob('tables/nop-entries', all(F.nopcodes[c] == (f'NOP{c}', F.NOP) for c in F.nopcodes)))
    obs.append(_ob('tables/inverse', all(F.nopcodes_inverse[f'NOP{c}'][0] == c for c in F.nopcodes)
                   and all(F.opcodes_inverse[n][0] == c for c, (n, _) in F.opcodes.items())))
    # compile: NOPn d<count> for every free code and every signed count; decompile prints it back
    bad_c, bad_d = None, None
    for c in sorted(F.nopcodes):
        for cnt in range(256):
            raw = bytes([c, cnt])
            signed = cnt - 256 if cnt >= 128 else cnt
            try:
                got = P.compile_script(f'NOP{c} d{signed}')
            except BaseException as ex:  # noqa: BLE001
                got = repr(ex)
            if got != raw and bad_c is None:
                bad_c = (c, cnt, got if isinstance(got, str) else got.hex())
            try:
                lines = P.decompile_script(raw)
                back = P.compile_script('\n'.join(lines))
            except BaseException as ex:  # noqa: BLE001
                lines, back = [repr(ex)], None
            if (back != raw or not lines or not lines[0].startswith(f'NOP{c} ')) and bad_d is None:
                bad_d = (c, cnt, lines)
    obs.append(_ob('tables/nop-compiles-as-code-count', bad_c is None, {'failing': repr(bad_c)}))
    obs.append(_ob('tables/nop-decompile-round-trip', bad_d is None, {'failing': repr(bad_d)}))
    return {'obligations': obs, 'summary': f'{len(F.nopcodes)} free codes x 256 count bytes, exhaustive'}

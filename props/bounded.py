"""Bounded stand-ins (DESIGN.md 2.10): native checks of real functions where the deductive engine does
not reach, always labelled `bounded` with the bound stated, never counted as proved.  A failing bounded
check is reported as a violation with the concrete failing input."""
import math
import os
import random
import struct
import sys

sys.path.insert(0, os.environ.get('VERIF_REPO', '/repo'))


def _ob(name, ok, info=None):
    return {'name': name, 'kind': 'bounded', 'status': 'discharged' if ok else 'failed', 'backend': 'native',
            'time_s': 0.0, 'path': '', 'info': info or {}, 'inputs': None}


def c10_native(tier='quick', seed=0):
    import tapescript.functions as F
    rnd = random.Random(seed)
    kmax = 2048 if tier == 'quick' else 16384
    n_log = n_rt = 0
    bad = None
    for k in list(range(0, 130)) + list(range(130, kmax, 7 if tier == 'quick' else 1)):
        for d in (-3, -2, -1, 0, 1, 2, 3):
            n = (1 << k) + d
            if n <= 0:
                continue
            r = math.floor(math.log2(n))
            n_log += 1
            if not (n.bit_length() - 1 <= r <= n.bit_length()):
                raise RuntimeError(f'axiom A-LOG2 does not conform for n = 2**{k} + {d}')      # checker fault
            for v in (n, -n):
                n_rt += 1
                if F.bytes_to_int(F.int_to_bytes(v)) != v and bad is None:
                    bad = v
    for _ in range(2000 if tier == 'quick' else 200000):
        v = rnd.getrandbits(rnd.randrange(1, 8192)) * rnd.choice((1, -1))
        n_rt += 1
        if F.bytes_to_int(F.int_to_bytes(v)) != v and bad is None:
            bad = v
    # float32: bit patterns per exponent (and all patterns in thorough/partial)
    n_f = 0
    fbad = None
    for e in range(256):
        for s in (0, 1):
            for m in ([0, 1, 0x400000, 0x7fffff] + [rnd.getrandbits(23) for _ in range(8 if tier == 'quick' else 400)]):
                bits = (s << 31) | (e << 23) | m
                b = bits.to_bytes(4, 'big')
                f = F.bytes_to_float(b)
                n_f += 1
                if f != f:
                    continue        # NaN payloads: not required to be preserved bit-exactly
                if F.float_to_bytes(f) != b and fbad is None:
                    fbad = b.hex()
    obs = [_ob('bounded/C10/int-round-trip-native', bad is None, {'failing': str(bad)[:80]}),
           _ob('bounded/C10/float32-round-trip', fbad is None, {'failing': fbad})]
    return {'obligations': obs,
            'bounded': {'what': 'A-LOG2 conformance; native int round trip; float32 unpack->pack bit patterns',
                        'bound': f'2**k+d for k < {kmax}, |d| <= 3, both signs; {n_rt} ints; {n_f} float32 patterns '
                                 f'(all exponents, both signs, sampled mantissas)', 'log2_points': n_log}}


def c07_depth_note(tier='quick', seed=0):
    return {'summary': 'Python recursion depth per nesting level is not modelled (known finding D4)'}


def c09_set_tape_flags(tier='quick', seed=0):
    """set_tape_flags against its sidecar spec, natively, including additional_flags is tape.flags"""
    import copy
    import tapescript.functions as F
    from tapescript.classes import Tape
    sys.path.insert(0, os.path.dirname(os.path.dirname(os.path.abspath(__file__))))
    from contracts.functions_ctrl import effective_flags
    rnd = random.Random(seed)
    keys = list(F.flags) + ['eval_return', 'disallow_OP_EVAL', 11, 200, b'x', b'dummy']
    n = 0
    bad = None
    for _ in range(400 if tier == 'quick' else 20000):
        tf = {k: rnd.choice((True, False, 0, 60, -5)) for k in rnd.sample(keys, rnd.randrange(0, len(keys)))}
        af = {k: rnd.choice((True, False, 0, 60, -5)) for k in rnd.sample(keys, rnd.randrange(0, len(keys)))}
        for alias in (False, True):
            t = Tape(b'', flags=dict(tf))
            a = t.flags if alias else dict(af)
            want = effective_flags(dict(t.flags), dict(a))
            a0 = dict(a)
            F.set_tape_flags(t, a)
            n += 1
            if t.flags != want and bad is None:
                bad = {'tape_flags': repr(tf), 'additional_flags': 'tape.flags (same dict)' if alias else repr(af),
                       'got': repr(t.flags), 'want': repr(want)}
            if not alias and a != a0 and bad is None:
                bad = {'additional_flags modified': repr(a0)}
    return {'obligations': [_ob('bounded/C09/set_tape_flags-vs-spec', bad is None, bad)],
            'bounded': {'what': 'set_tape_flags(tape, additional_flags) == effective_flags spec, with and without '
                                'aliasing of the two dicts', 'bound': f'{n} seeded random flag dicts'}}


def c06_bytewise(tier='quick', seed=0):
    """xor / or_bytes / and_bytes against their (assumed) byte-wise contracts"""
    import tapescript.functions as F
    rnd = random.Random(seed)
    bad = None
    n = 0
    ops = ((F.xor, lambda x, y: x ^ y), (F.or_bytes, lambda x, y: x | y), (F.and_bytes, lambda x, y: x & y))
    for f, g in ops:
        for a in range(256):
            for b in range(256):
                n += 1
                if f(bytes([a]), bytes([b])) != bytes([g(a, b)]) and bad is None:
                    bad = (f.__name__, a, b)
        for _ in range(300 if tier == 'quick' else 20000):
            ln = rnd.randrange(0, 70)
            x, y = rnd.randbytes(ln), rnd.randbytes(ln)
            n += 1
            if f(x, y) != bytes(g(p, q) for p, q in zip(x, y)) and bad is None:
                bad = (f.__name__, x.hex(), y.hex())
    # P-XOR (prelude law used by bytes_are_same)
    for _ in range(2000):
        ln = rnd.randrange(0, 40)
        x = rnd.randbytes(ln)
        y = x if rnd.random() < 0.5 else rnd.randbytes(ln)
        if (int.from_bytes(F.xor(x, y), 'little') == 0) != (x == y):
            raise RuntimeError('prelude law xor_zero does not conform')
    return {'obligations': [_ob('bounded/C06/bytewise-helpers', bad is None, {'failing': repr(bad)})],
            'bounded': {'what': 'xor, or_bytes, and_bytes == byte-wise op', 'bound': f'all 1-byte pairs; {n} cases'}}


def c19_history(tier='quick', seed=0):
    """bounded-exhaustive histories over the registries (plugins x scopes, contracts, aliases, compile):
    the active entries are exactly those added and not since removed / reset; a run uses an entry iff
    it is active; compile results do not depend on earlier compilations.  Runs in a subprocess per
    history batch so that process-global registries start clean."""
    import itertools
    import subprocess
    import json
    depth = 4 if tier == 'quick' else 5
    code = r'''
import sys, itertools, json
sys.path.insert(0, sys.argv[1])
import tapescript.functions as F
import tapescript as ts
depth = int(sys.argv[2])
calls = []
P = [lambda t, s, c, i=i: calls.append(i) for i in range(3)]
scopes = ['signature_extensions', 'check_template']
acts = [('add', p, s) for p in range(3) for s in range(2)] + [('rem', p, s) for p in range(3) for s in range(2)] + \
       [('reset', 0, s) for s in range(2)]
bad = None
n = 0
probe = ts.compile_script('msg x00')
for h in itertools.product(range(len(acts)), repeat=depth):
    for s in scopes:
        F._plugins[s] = []
    model = {0: [], 1: []}
    for a in h:
        k, p, s = acts[a]
        if k == 'add':
            F.add_plugin(scopes[s], P[p])
            if p not in model[s]:
                model[s].append(p)
        elif k == 'rem':
            F.remove_plugin(scopes[s], P[p])
            if p in model[s]:
                model[s].remove(p)
        else:
            F.reset_plugins(scopes[s])
            model[s] = []
    n += 1
    got = [[P.index(f) for f in F._plugins[s]] for s in scopes]
    if got != [model[0], model[1]] and bad is None:
        bad = {'history': [acts[a] for a in h], 'active': got, 'expected': [model[0], model[1]]}
    if n % 97 == 0:
        calls.clear()
        ts.run_script(probe, {'sigfield1': b'a'})
        if sorted(calls) != sorted(model[0]) and bad is None:
            bad = {'history': [acts[a] for a in h], 'ran': list(calls), 'expected': model[0]}
for s in scopes:
    F._plugins[s] = []
# compile: result independent of what was compiled before (macros, variables, comptime)
srcs = ['!= m [ a ] { push a } !m [ d1 ]', 'push d1', '@= x [ d2 ] @x', 'push ~ { push d3 }', 'if { true } else { false }']
alone = {s: ts.compile_script(s) for s in srcs}
for perm in itertools.permutations(srcs, 3):
    for s in perm:
        n += 1
        if ts.compile_script(s) != alone[s] and bad is None:
            bad = {'compile-history': list(perm), 'source': s}
try:
    ts.compile_script('!m [ d1 ]')
    if bad is None:
        bad = {'macro leaked across compile_script calls': '!m [ d1 ]'}
except BaseException:
    pass
# caller dictionaries are not modified by run_script / run_auth_scripts
cv, ct, pl = {'sigfield1': b'a'}, {}, {'signature_extensions': []}
snap = (dict(cv), dict(ct), {k: list(v) for k, v in pl.items()})
ts.run_script(ts.compile_script('true return'), cv, ct, plugins=pl)
ts.run_auth_scripts([ts.compile_script('true')], cv, ct, pl)
if (cv, ct, pl) != snap and bad is None:
    bad = {'caller dict modified': repr((cv, ct, pl))}
print('RESULT ' + json.dumps({'n': n, 'bad': bad}, default=str))
'''
    repo = os.environ.get('VERIF_REPO', '/repo')
    p = subprocess.run([sys.executable, '-c', code, repo, str(depth)], capture_output=True, text=True, timeout=3000)
    res = None
    for line in p.stdout.splitlines():
        if line.startswith('RESULT '):
            res = json.loads(line[7:])
    if res is None:
        raise RuntimeError('c19_history harness failed: ' + (p.stderr or '')[-800:])
    return {'obligations': [_ob('bounded/C19/registry-histories', res['bad'] is None, res['bad'])],
            'bounded': {'what': 'plugin registry histories over {add, remove, reset} x 3 plugins x 2 scopes; '
                                'compile history independence; caller dictionaries unmodified',
                        'bound': f'all histories of length {depth} ({res["n"]} cases incl. compile permutations)',
                        'exhaustive_up_to_bound': True}}


# ------------------------------------------------------------------------------------------ C12
_C12_NOARG = ('OP_FALSE OP_TRUE OP_POP0 OP_SIZE OP_READ_CACHE_STACK OP_READ_CACHE_STACK_SIZE OP_DIV_INTS OP_MOD_INTS '
              'OP_DIV_FLOATS OP_MOD_FLOATS OP_DUP OP_SHA256 OP_VERIFY OP_EQUAL OP_EQUAL_VERIFY OP_CHECK_TIMESTAMP '
              'OP_CHECK_TIMESTAMP_VERIFY OP_CHECK_EPOCH OP_CHECK_EPOCH_VERIFY OP_EVAL OP_RANDOM OP_NOT OP_RETURN '
              'OP_DEPTH OP_SWAP2 OP_CONCAT OP_CONCAT_STR OP_CHECK_TRANSFER OP_LESS OP_LESS_OR_EQUAL OP_FLOAT_LESS '
              'OP_FLOAT_LESS_OR_EQUAL OP_INT_TO_FLOAT OP_FLOAT_TO_INT OP_SIGN_STACK OP_CHECK_SIG_STACK '
              'OP_DERIVE_SCALAR OP_DERIVE_POINT OP_MAKE_ADAPTER_SIG_PUBLIC OP_MAKE_ADAPTER_SIG_PRIVATE '
              'OP_CHECK_ADAPTER_SIG OP_DECRYPT_ADAPTER_SIG OP_XOR OP_INVOKE OP_OR OP_AND OP_SPLIT OP_SPLIT_STR').split()
_C12_SIZED = 'OP_READ_CACHE OP_READ_CACHE_SIZE OP_SET_FLAG OP_UNSET_FLAG OP_GET_VALUE'.split()
_C12_SBYTE = ('OP_PUSH0 OP_POP1 OP_ADD_INTS OP_SUBTRACT_INTS OP_MULT_INTS OP_ADD_FLOATS OP_SUBTRACT_FLOATS '
              'OP_ADD_POINTS OP_CALL OP_COPY OP_SHAKE256 OP_REVERSE OP_CLAMP_SCALAR OP_ADD_SCALARS '
              'OP_SUBTRACT_SCALARS OP_SUBTRACT_POINTS').split()
_C12_XBYTE = 'OP_CHECK_SIG OP_CHECK_SIG_VERIFY OP_SIGN OP_TAPROOT OP_GET_MESSAGE OP_CHECK_TEMPLATE OP_CHECK_TEMPLATE_VERIFY'.split()


def _c12_program(rnd, code_of, nop_names, depth, n_max=6, in_def=False):
    """random abstract program -> (reference bytes, reference listing lines without indentation).
    The reference encodings are written from docs.md / language_spec.md (one encoder per operand
    class), independently of parsing.py."""
    out_b, out_l = b'', []

    def sbyte():
        v = rnd.choice((0, 1, -1, 127, -128, rnd.randrange(-128, 128)))
        return v, (v & 0xff).to_bytes(1, 'big')

    def minimal_int():
        v = rnd.choice((0, 1, -1, 127, 128, -128, -129, 255, 256, 32767, 32768, -32768, -32769,
                        rnd.randrange(-2**40, 2**40)))
        ln = 1
        while True:
            try:
                return v, v.to_bytes(ln, 'big', signed=True)
            except OverflowError:
                ln += 1

    def block(in_def_=in_def):
        return _c12_program(rnd, code_of, nop_names, depth - 1, 3, in_def_) if depth > 0 else (b'', [])

    for _ in range(rnd.randrange(0, n_max + 1)):
        kinds = ['noarg', 'push1', 'sized', 'divint', 'wcache', 'sbyte', 'xbyte', 'push2', 'divfloat', 'swap',
                 'multisig', 'merkleval', 'nop']
        if depth > 0:
            kinds += ['if', 'ifelse', 'try', 'loop'] * 2
            if not in_def:
                kinds += ['def'] * 2        # the compiler rejects OP_DEF inside an OP_DEF body
        k = rnd.choice(kinds)
        if k == 'noarg':
            n = rnd.choice(_C12_NOARG)
            out_b += bytes([code_of[n]]); out_l.append(n)
        elif k == 'push1':
            v = rnd.randbytes(rnd.choice((1, 2, 31, 32, 64, 255, rnd.randrange(1, 256))))
            out_b += bytes([code_of['OP_PUSH1'], len(v)]) + v
            out_l.append(f'OP_PUSH1 d{len(v)} x{v.hex()}')
        elif k == 'push2':
            v = rnd.randbytes(rnd.choice((256, 257, 300, 1000, rnd.randrange(256, 1500))))
            out_b += bytes([code_of['OP_PUSH2']]) + len(v).to_bytes(2, 'big') + v
            out_l.append(f'OP_PUSH2 d{len(v)} x{v.hex()}')
        elif k == 'sized':
            n = rnd.choice(_C12_SIZED)
            v = rnd.randbytes(rnd.choice((1, 2, 32, 255, rnd.randrange(1, 256))))
            out_b += bytes([code_of[n], len(v)]) + v
            out_l.append(f'{n} x{v.hex()}')
        elif k == 'divint':
            n = rnd.choice(('OP_DIV_INT', 'OP_MOD_INT'))
            v, enc = minimal_int()
            out_b += bytes([code_of[n], len(enc)]) + enc
            out_l.append(f'{n} d{v}')
        elif k == 'wcache':
            v = rnd.randbytes(rnd.randrange(1, 40))
            c = rnd.choice((0, 1, 127, 128, 255))
            out_b += bytes([code_of['OP_WRITE_CACHE'], len(v)]) + v + bytes([c])
            out_l.append(f'OP_WRITE_CACHE x{v.hex()} d{c}')
        elif k == 'sbyte':
            n = rnd.choice(_C12_SBYTE)
            v, enc = sbyte()
            out_b += bytes([code_of[n]]) + enc
            out_l.append(f'{n} d{v}')
        elif k == 'nop':
            n = rnd.choice(nop_names)
            v, enc = sbyte()
            out_b += bytes([code_of[n]]) + enc
            out_l.append(f'{n} d{v}')
        elif k == 'xbyte':
            n = rnd.choice(_C12_XBYTE)
            v = rnd.randbytes(1)
            out_b += bytes([code_of[n]]) + v
            out_l.append(f'{n} x{v.hex()}')
        elif k == 'divfloat':
            n = rnd.choice(('OP_DIV_FLOAT', 'OP_MOD_FLOAT'))
            v = struct.pack('!f', rnd.choice((1.5, -2.25, 1e10, 3.0)))
            out_b += bytes([code_of[n]]) + v
            out_l.append(f'{n} x{v.hex()}')
        elif k == 'swap':
            a, b = rnd.choice((0, 1, 127, 128, 255)), rnd.choice((0, 1, 127, 128, 255))
            out_b += bytes([code_of['OP_SWAP'], a, b])
            out_l.append(f'OP_SWAP d{a} d{b}')
        elif k == 'multisig':
            n = rnd.choice(('OP_CHECK_MULTISIG', 'OP_CHECK_MULTISIG_VERIFY'))
            f, a, b = rnd.randbytes(1), rnd.choice((0, 1, 127, 128, 255)), rnd.choice((0, 1, 127, 128, 255))
            out_b += bytes([code_of[n]]) + f + bytes([a, b])
            out_l.append(f'{n} x{f.hex()} d{a} d{b}')
        elif k == 'merkleval':
            v = rnd.randbytes(32)
            out_b += bytes([code_of['OP_MERKLEVAL']]) + v
            out_l.append(f'OP_MERKLEVAL x{v.hex()}')
        elif k == 'def':
            h = rnd.choice((0, 1, 127, 128, 255))
            bb, bl = block(True)
            out_b += bytes([code_of['OP_DEF'], h]) + len(bb).to_bytes(2, 'big') + bb
            out_l += [f'OP_DEF {h} {{'] + bl + ['}']
        elif k in ('if', 'loop'):
            n = 'OP_IF' if k == 'if' else 'OP_LOOP'
            bb, bl = block()
            out_b += bytes([code_of[n]]) + len(bb).to_bytes(2, 'big') + bb
            out_l += [n + ' {'] + bl + ['}']
        elif k == 'ifelse':
            b1, l1 = block()
            b2, l2 = block()
            out_b += bytes([code_of['OP_IF_ELSE']]) + len(b1).to_bytes(2, 'big') + b1 + len(b2).to_bytes(2, 'big') + b2
            out_l += ['OP_IF {'] + l1 + ['} ELSE {'] + l2 + ['}']
        elif k == 'try':
            b1, l1 = block()
            b2, l2 = block()
            out_b += bytes([code_of['OP_TRY_EXCEPT']]) + len(b1).to_bytes(2, 'big') + b1 + len(b2).to_bytes(2, 'big') + b2
            out_l += ['OP_TRY {'] + l1 + (['} EXCEPT {'] + l2 if l2 else []) + ['}']
    return out_b, out_l


def c12_roundtrip(tier='quick', seed=0):
    """bounded stand-in for the round-trip clauses of C12 (the termination / no-backward-read clauses are
    proved on decompile_script's body): (1) for random abstract programs over every operand class and
    block kind, nesting <= 3: decompile(reference bytes) is the reference listing, and compiling that
    listing gives the reference bytes back; (2) builder outputs round-trip; (3) decompile_script on
    arbitrary bytes returns or raises under a watchdog."""
    import signal
    import tapescript
    import tapescript.functions as F
    from tapescript import parsing, tools
    rnd = random.Random(seed)
    code_of = {v[0]: k for k, v in F.opcodes.items()}
    nop_names = [v[0] for v in F.nopcodes.values()]
    code_of.update({v[0]: k for k, v in F.nopcodes.items()})
    n_prog = 400 if tier == 'quick' else 20000
    bad = None
    n = 0
    for _ in range(n_prog):
        b, lines = _c12_program(rnd, code_of, nop_names, depth=3)
        n += 1
        try:
            got = [ln.strip() for ln in parsing.decompile_script(b)]
            if got != lines:
                d = next((i for i, (x, y) in enumerate(zip(got, lines)) if x != y), min(len(got), len(lines)))
                bad = bad or {'bytes': b.hex()[:400], 'what': 'listing differs from the reference listing',
                              'at': d, 'got': got[d:d + 2], 'want': lines[d:d + 2]}
                continue
            b2 = parsing.compile_script('\n'.join(parsing.decompile_script(b)))
            if b2 != b:
                bad = bad or {'bytes': b.hex()[:400], 'what': 'compile(decompile(b)) != b', 'got': b2.hex()[:400]}
        except BaseException as ex:  # noqa: BLE001
            bad = bad or {'bytes': b.hex()[:400], 'what': f'{type(ex).__name__}: {ex}'[:300]}
    # (2) builder outputs
    seeds = [bytes([i]) * 32 for i in range(1, 5)]
    from nacl.signing import SigningKey
    pks = [bytes(SigningKey(s).verify_key) for s in seeds]
    sf = {'sigfield1': b'hello', 'sigfield2': b'world'}
    built = []

    def add(name, f):
        try:
            built.append((name, f()))
        except BaseException as ex:  # noqa: BLE001
            built.append((name, ex))
    add('after', lambda: tools.make_timestamp_after_lock(1700000000))
    add('before', lambda: tools.make_timestamp_before_lock(1700000000, True))
    add('between', lambda: tools.make_timestamp_between_lock(5, 2**33))
    add('single', lambda: tools.make_single_sig_lock(pks[0], '0f'))
    add('single2', lambda: tools.make_single_sig_lock2(pks[0]))
    add('single-w', lambda: tools.make_single_sig_witness(seeds[0], sf, '01'))
    add('single-w2', lambda: tools.make_single_sig_witness2(seeds[0], sf))
    add('multisig', lambda: tools.make_multisig_lock(pks[:3], 2))
    add('scripthash', lambda: tools.make_scripthash_lock(tools.Script.from_src('true')))
    add('scripthash-w', lambda: tools.make_scripthash_witness(tools.Script.from_src('push x' + 'ab' * 300)))
    add('delegate', lambda: tools.make_delegate_key_lock(pks[0]))
    add('delegate-chain', lambda: tools.make_delegate_key_chain_lock(pks[0]))
    add('graftroot', lambda: tools.make_graftroot_lock(pks[0]))
    add('htlc', lambda: tools.make_htlc_sha256_lock(pks[0], pks[1], preimage=b'p' * 16))
    add('htlc-shake', lambda: tools.make_htlc_shake256_lock(pks[0], pks[1], preimage=b'p' * 16))
    add('htlc2', lambda: tools.make_htlc2_sha256_lock(pks[0], pks[1], preimage=b'p' * 16))
    add('htlc2-shake', lambda: tools.make_htlc2_shake256_lock(pks[0], pks[1], preimage=b'p' * 16))
    add('ptlc', lambda: tools.make_ptlc_lock(pks[0], pks[1]))
    add('ptlc-tweak', lambda: tools.make_ptlc_lock(pks[0], pks[1], tweak_point=pks[2]))
    add('taproot', lambda: tools.make_taproot_lock(pks[0], tools.Script.from_src('true')))
    add('taproot-nn', lambda: tools.make_nonnative_taproot_lock(pks[0], tools.Script.from_src('true')))
    add('taproot-ws', lambda: tools.make_taproot_witness_scriptspend(pks[0], tools.Script.from_src('true if { false }')))
    add('graftap', lambda: tools.make_graftap_lock(pks[0]))
    add('adapter-pub', lambda: tools.make_adapter_locks_pub(pks[0], pks[1]))
    add('merklized', lambda: tools.make_merklized_script_prioritized(['true', 'false', 'push d3'])[0])
    add('merklized-b', lambda: tools.make_merklized_script_balanced(['true', 'false', 'push d3', 'push d4'])[0])
    n_built = 0
    for name, s in built:
        if isinstance(s, BaseException):
            raise RuntimeError(f'c12_roundtrip: builder sample {name} could not be built: {s!r}')   # harness error
        ss = s if isinstance(s, (list, tuple)) else [s]
        for sc in ss:
            b = bytes(sc)
            n_built += 1
            try:
                b2 = parsing.compile_script('\n'.join(parsing.decompile_script(b)))
                if b2 != b:
                    bad = bad or {'builder': name, 'bytes': b.hex()[:400], 'what': 'compile(decompile(b)) != b'}
            except BaseException as ex:  # noqa: BLE001
                bad = bad or {'builder': name, 'bytes': b.hex()[:400], 'what': f'{type(ex).__name__}: {ex}'[:300]}
    # (3) arbitrary bytes: returns or raises (watchdog 5 s per input)
    n_arb = 0

    def onalarm(*a):
        raise TimeoutError
    old = signal.signal(signal.SIGALRM, onalarm)
    try:
        samples = [bytes([op]) + tail for op in range(256) for tail in (b'', b'\xff', b'\xff\xff', b'\xff\xfd',
                                                                         b'\x80\x00\x00', b'\x00\x01\x00')]
        samples += [rnd.randbytes(rnd.randrange(0, 60)) for _ in range(2000 if tier == 'quick' else 100000)]
        for b in samples:
            n_arb += 1
            signal.alarm(5)
            try:
                parsing.decompile_script(b)
            except TimeoutError:
                bad = bad or {'bytes': b.hex(), 'what': 'decompile_script did not return within 5 s'}
            except RecursionError:
                bad = bad or {'bytes': b.hex(), 'what': 'RecursionError'}
            except BaseException:  # noqa: BLE001   (ScriptExecutionError derives from BaseException)
                pass
            finally:
                signal.alarm(0)
    finally:
        signal.signal(signal.SIGALRM, old)
    return {'obligations': [_ob('bounded/C12/round-trip', bad is None, bad)],
            'bounded': {'what': 'decompile(reference bytes) == reference listing and compile(listing) == bytes for '
                                'random abstract programs over every operand class and block kind; builder outputs '
                                'round-trip; decompile_script returns or raises on arbitrary bytes (watchdog)',
                        'bound': f'{n} programs (nesting <= 3), {n_built} builder scripts, {n_arb} byte strings '
                                 f'(every opcode x 6 tails + random, length < 60)'}}


# ------------------------------------------------------------------------------------------ C04
def c04_trees(tier='quick', seed=0):
    """bounded stand-in for the tree-level clauses of C04 (the op-level commitment check and the
    one-level lock / witness lemma are proved): for random trees built with the tree classes and both
    builders, every leaf's unlocking script + the root lock runs exactly that leaf (a recording contract
    is the first instruction of every leaf) and gives the leaf's own verdict; a wrong sibling or script
    is rejected before anything of it runs; pack / unpack keeps the root and every unlocking script."""
    import tapescript
    from tapescript import tools
    import tapescript.functions as F
    rnd = random.Random(seed)
    started = []

    class Rec:
        def __init__(self, i):
            self.i = i

        def mark(self, *a):
            started.append(self.i)
            return b''
    bad = None
    n = 0
    n_trees = 25 if tier == 'quick' else 600
    cids = [bytes([200 + i]) * 4 for i in range(16)]
    recs = {cids[i]: Rec(i) for i in range(16)}
    for t in range(n_trees):
        k = rnd.randrange(1, 9 if tier == 'quick' else 17)
        verdicts = [rnd.random() < 0.7 for _ in range(k)]
        # leaf i: invoke the recording contract, then leave its verdict
        srcs = [f'push x{cids[i].hex()} push d0 push x{cids[i].hex()} invoke pop0 {"true" if verdicts[i] else "false"}'
                for i in range(k)]
        # OP_INVOKE needs a contract object with an `abi`; use a minimal recording object
        for builder in ('prioritized', 'balanced'):
            try:
                if builder == 'prioritized':
                    lock, unlocks = tools.make_merklized_script_prioritized(list(srcs))
                else:
                    lock, unlocks = tools.make_merklized_script_balanced(list(srcs))
            except BaseException as ex:  # noqa: BLE001
                raise RuntimeError(f'c04_trees: builder failed: {ex!r}')
            for i, u in enumerate(unlocks[:k]):
                n += 1
                started.clear()
                contracts = {cid: _C04Contract(recs[cid]) for cid in cids[:k]}
                try:
                    ok = F.run_auth_scripts([u.bytes, lock.bytes], {}, contracts)
                except BaseException as ex:  # noqa: BLE001
                    ok = f'raised {type(ex).__name__}'
                if (started != [i] or ok is not verdicts[i]) and bad is None:
                    bad = {'builder': builder, 'leaves': k, 'leaf': i, 'started': list(started), 'verdict': repr(ok),
                           'expected_verdict': verdicts[i]}
                # tampered sibling commitment: rejected, nothing starts
                tb = bytearray(u.bytes)
                tb[5] ^= 1          # inside the first pushed commitment (push1 32 <32 bytes>)
                started.clear()
                ok2 = F.run_auth_scripts([bytes(tb), lock.bytes], {}, contracts)
                if (ok2 is not False or started) and bad is None:
                    bad = {'builder': builder, 'leaves': k, 'leaf': i, 'tampered': True, 'started': list(started),
                           'verdict': repr(ok2)}
        # pack / unpack
        tree = tools.make_script_tree_prioritized(list(srcs)) if k > 0 else None
        try:
            t2 = tools.ScriptNode.unpack(tree.pack())
            if t2.root() != tree.root() and bad is None:
                bad = {'pack/unpack': 'root differs', 'leaves': k}
            if bytes(t2.left.unlocking_script()) != bytes(tree.left.unlocking_script()) and bad is None:
                bad = {'pack/unpack': 'unlocking script differs', 'leaves': k}
        except BaseException as ex:  # noqa: BLE001
            if bad is None:
                bad = {'pack/unpack': f'{type(ex).__name__}: {ex}'[:200], 'leaves': k}
    return {'obligations': [_ob('bounded/C04/trees', bad is None, bad)],
            'bounded': {'what': 'merklized script trees: each unlocking script runs exactly its leaf with the leaf\'s '
                                'verdict; tampered sibling rejected before anything runs; pack/unpack keeps root and '
                                'unlocking script', 'bound': f'{n_trees} random trees x 2 builders, 1..{8 if tier == "quick" else 16} '
                                                             f'leaves ({n} unlock runs)'}}


class _C04Contract:
    """minimal contract object for OP_INVOKE (CanBeInvoked interface: abi(args) -> list[bytes])"""

    def __init__(self, rec):
        self.rec = rec

    def abi(self, args):
        self.rec.mark()
        return []


# ------------------------------------------------------------------------------------------ C05
_P = 2**255 - 19
_D = (-121665 * pow(121666, _P - 2, _P)) % _P
_L = 2**252 + 27742317777372353535851937790883648493


def _ed_add(p1, p2):
    (x1, y1), (x2, y2) = p1, p2
    t = _D * x1 * x2 * y1 * y2 % _P
    x3 = (x1 * y2 + x2 * y1) * pow(1 + t, _P - 2, _P) % _P
    y3 = (y1 * y2 + x1 * x2) * pow(1 - t, _P - 2, _P) % _P
    return x3, y3


def _ed_mul(k, p):
    q = (0, 1)
    while k:
        if k & 1:
            q = _ed_add(q, p)
        p = _ed_add(p, p)
        k >>= 1
    return q


def _ed_dec(b):
    y = int.from_bytes(b, 'little') & ((1 << 255) - 1)
    sign = b[31] >> 7
    x2 = (y * y - 1) * pow(_D * y * y + 1, _P - 2, _P) % _P
    x = pow(x2, (_P + 3) // 8, _P)
    if (x * x - x2) % _P:
        x = x * pow(2, (_P - 1) // 4, _P) % _P
    if (x * x - x2) % _P:
        raise ValueError('not a point')
    if (x & 1) != sign:
        x = _P - x
    return x, y


def _ed_enc(p):
    x, y = p
    return (y | ((x & 1) << 255)).to_bytes(32, 'little')


_G = _ed_dec((4 * pow(5, _P - 2, _P) % _P).to_bytes(32, 'little'))


def c05_taproot(tier='quick', seed=0):
    """bounded stand-ins for C05 (the instruction's contract and the lock / witness lemmas are proved):
    (1) the root in make_taproot_lock's output equals P + clamp(sha256(P || sha256(S)))*G, recomputed
    with an independent pure-Python Ed25519; (2) the builders' key-spend and script-spend witnesses
    unlock the lock they were made for; (3) native vs non-native lock give the same verdict."""
    import hashlib
    from nacl.signing import SigningKey
    from tapescript import tools
    import tapescript.functions as F
    rnd = random.Random(seed)
    bad = None
    bad_h0 = None
    n = 0
    scripts = ['true', 'false', 'push d1 push d1 equal', 'push d2 push d3 add_ints d2 push d5 equal',
               'true return false', 'if { true } else { false }', 'push x' + 'ab' * 40 + ' pop0 true']
    handle0 = ['def 0 { true } call d0', 'call d0', 'call d0 pop0 true']
    for _ in range(12 if tier == 'quick' else 400):
        seed_ = rnd.randbytes(32)
        sk = SigningKey(seed_)
        pk = bytes(sk.verify_key)
        for src in scripts + handle0:
            sc = tools.Script.from_src(src)
            n += 1
            fl = rnd.choice(('00', '00', '01', '03', '80'))          # permitted sigflags of the lock
            lock = tools.make_taproot_lock(pk, sc, sigflags=fl)
            # (1) root identity, independent arithmetic
            t = bytearray(hashlib.sha256(pk + hashlib.sha256(sc.bytes).digest()).digest())
            t[31] &= 0x7f                                   # clamp_scalar(..., from_private_key=False)
            k = int.from_bytes(bytes(t), 'little')
            root = _ed_enc(_ed_add(_ed_dec(pk), _ed_mul(k % _L, _G)))
            if lock.bytes[2:34] != root and bad is None:
                bad = {'what': 'root identity', 'pubkey': pk.hex(), 'script': src, 'lock_root': lock.bytes[2:34].hex(),
                       'recomputed': root.hex()}
            sf = {'sigfield1': rnd.randbytes(8), 'sigfield2': rnd.randbytes(3)}
            nn = tools.make_nonnative_taproot_lock(pk, sc, sigflags=fl)
            wk = tools.make_taproot_witness_keyspend(seed_, sf, sc, sigflags=fl)
            wk0 = tools.make_taproot_witness_keyspend(seed_, sf, sc)
            ws = tools.make_taproot_witness_scriptspend(pk, sc)
            junk = tools.Script.from_src('push x' + rnd.randbytes(64).hex())
            wrong = tools.make_taproot_witness_scriptspend(pk, tools.Script.from_src(src + ' true'))
            # (2) builders' witnesses unlock
            if F.run_auth_scripts([wk.bytes, lock.bytes], dict(sf)) is not True and bad is None:
                bad = {'what': 'key-spend witness rejected', 'pubkey': pk.hex(), 'script': src}
            # (3) native vs non-native, every witness
            for wname, w in (('keyspend', wk), ('keyspend-unflagged', wk0), ('scriptspend', ws), ('junk-signature', junk),
                             ('wrong-script', wrong)):
                a = F.run_auth_scripts([w.bytes, lock.bytes], dict(sf))
                b = F.run_auth_scripts([w.bytes, nn.bytes], dict(sf))
                if a is not b:
                    rec = {'what': 'native and non-native lock disagree', 'script': src, 'witness': wname,
                           'lock_sigflags': fl, 'native': a, 'nonnative': b}
                    if src in handle0:
                        bad_h0 = bad_h0 or rec
                    elif bad is None:
                        bad = rec
    obs = [_ob('bounded/C05/taproot-builders', bad is None, bad),
           # committed scripts that use definition handle 0, which the non-native lock itself defines (D20)
           _ob('bounded/C05/native-vs-nonnative/handle0', bad_h0 is None, bad_h0)]
    return {'obligations': obs,
            'bounded': {'what': 'taproot root identity against an independent Ed25519; builder witnesses unlock; native vs '
                                'non-native verdicts for key-spend, script-spend, junk and wrong-script witnesses',
                        'bound': f'{n} (key, script) pairs'}}


# ------------------------------------------------------------------------------------------ C13
def c13_builders(tier='quick', seed=0):
    """bounded stand-in for the builder-side clauses of C13 (the lock side is proved by the lemmas): the
    witness each builder produces unlocks the lock of its sibling builder, for random keys, sigfields and
    permitted flags; a witness by another key, over other sigfields, with a non-permitted flag, for another
    committed / surrogate script, or with a surrogate signed by another key is rejected."""
    from nacl.signing import SigningKey
    from tapescript import tools
    import tapescript.functions as F
    rnd = random.Random(seed)
    bad = None
    n = 0

    def expect(name, want, scripts, sf, info):
        nonlocal bad, n
        n += 1
        try:
            got = F.run_auth_scripts([bytes(s) for s in scripts], dict(sf))
        except BaseException as ex:  # noqa: BLE001
            got = f'raised {type(ex).__name__}'
        if got is not want and bad is None:
            bad = dict(info, case=name, verdict=repr(got), expected=want,
                       scripts=[bytes(s).hex()[:200] for s in scripts], sigfields={k: v.hex() for k, v in sf.items()})
    for _ in range(6 if tier == 'quick' else 300):
        s1, s2 = rnd.randbytes(32), rnd.randbytes(32)
        p1, p2 = bytes(SigningKey(s1).verify_key), bytes(SigningKey(s2).verify_key)
        sf = {f'sigfield{i}': rnd.randbytes(rnd.randrange(1, 20)) for i in rnd.sample(range(1, 9), rnd.randrange(1, 5))}
        sf2 = dict(sf)
        k0 = sorted(sf)[0]
        sf2[k0] = sf2[k0] + b'!'
        low = int(k0[-1]) - 1
        # a permitted flag that does not exclude the field changed in sf2 (else both messages coincide)
        fl = rnd.choice([f for f in (0, 1, 2, 4, 8, 0x80) if not (f >> low) & 1])
        fx = f'{fl:02x}'
        other = f'{(fl ^ 0x40) | 0x40:02x}'         # a flag bit the lock does not permit
        info = {'flags': fx}
        for lname, lock, wit in (
            ('single_sig', tools.make_single_sig_lock(p1, fx), tools.make_single_sig_witness),
            ('single_sig2', tools.make_single_sig_lock2(p1, fx), tools.make_single_sig_witness2),
            ('graftroot_key', tools.make_graftroot_lock(p1, fx), tools.make_graftroot_witness_keyspend),
            ('graftap_key', tools.make_graftap_lock(p1, fx), tools.make_graftap_witness_keyspend),
        ):
            expect(lname + '/unlocks', True, [wit(s1, sf, fx), lock], sf, info)
            expect(lname + '/other-key', False, [wit(s2, sf, fx), lock], sf, info)
            expect(lname + '/other-sigfields', False, [wit(s1, sf2, fx), lock], sf, info)
            expect(lname + '/non-permitted-flag', False, [wit(s1, sf, other), lock], sf, info)
        # multisig 2-of-3
        s3 = rnd.randbytes(32)
        p3 = bytes(SigningKey(s3).verify_key)
        ml = tools.make_multisig_lock([p1, p2, p3], 2, fx)
        w = tools.make_single_sig_witness
        expect('multisig/unlocks', True, [w(s1, sf, fx) + w(s3, sf, fx), ml], sf, info)
        expect('multisig/one-signer-twice', False, [w(s1, sf, fx) + w(s1, sf, fx), ml], sf, info)
        expect('multisig/one-signer', False, [w(s2, sf, fx), ml], sf, info)
        # scripthash
        sc = tools.Script.from_src(rnd.choice(('true', 'push d1 push d1 equal', 'push x' + rnd.randbytes(30).hex() + ' pop0 true')))
        sc_other = tools.Script.from_src('true true equal')
        hl = tools.make_scripthash_lock(sc)
        expect('scripthash/unlocks', True, [tools.make_scripthash_witness(sc), hl], sf, info)
        expect('scripthash/other-script', False, [tools.make_scripthash_witness(sc_other), hl], sf, info)
        # graftroot / graftap surrogate
        gl = tools.make_graftroot_lock(p1, fx)
        expect('graftroot_surrogate/unlocks', True, [tools.make_graftroot_witness_surrogate(s1, sc), gl], sf, info)
        expect('graftroot_surrogate/other-signer', False, [tools.make_graftroot_witness_surrogate(s2, sc), gl], sf, info)
        gtl = tools.make_graftap_lock(p1, fx)
        expect('graftap_script/unlocks', True, [tools.make_graftap_witness_scriptspend(s1, sc), gtl], sf, info)
        expect('graftap_script/other-signer', False, [tools.make_graftap_witness_scriptspend(s2, sc), gtl], sf, info)
    return {'obligations': [_ob('bounded/C13/builders', bad is None, bad)],
            'bounded': {'what': 'builder witnesses unlock their sibling lock; other key / other sigfields / non-permitted '
                                'flag / other script / surrogate by another key are rejected (single-sig both layouts, '
                                'multisig 2-of-3, scripthash, graftroot and graftap both paths)',
                        'bound': f'{n} runs on seeded random keys, sigfields and flags'}}


def c08_mutable_values(tier='quick', seed=0):
    """C08, the part the sidecar's input assumption leaves out: the contracts assume sigfield1..8 are `bytes`
    (immutable), so "the value under a str key is the same afterwards" is decided only as "the key is not
    re-bound".  The real code also accepts *mutable* values there (bytearray sigfields concatenate fine,
    OP_GET_VALUE serves bytearray / list values), and an instruction that mutates such a value in place
    (`msg = cache[k]; msg += ...`) changes the embedder's entry without any store to the key.  Native,
    bounded: short scripts over every opcode byte against caches holding bytearray / list values under
    str keys; afterwards every str-keyed entry must be the same object, of the same type, with an equal
    deep copy.  The key 'returned' is left out (known finding D5)."""
    import copy
    import signal
    import tapescript.functions as F
    from tapescript.classes import Tape, Stack
    rnd = random.Random(seed)
    code_of = {v[0]: k for k, v in F.opcodes.items()}
    names = ['sigfield%d' % i for i in range(1, 9)] + ['timestamp', 'other', 'note']
    sk = rnd.randbytes(32)

    def get_value(key):
        k = key.encode()
        return bytes([code_of['OP_GET_VALUE'], len(k)]) + k

    def mk_cache():
        c = {}
        for i in range(1, 9):
            r = rnd.random()
            if r < 0.45:
                c['sigfield%d' % i] = bytearray(rnd.randbytes(rnd.randrange(0, 12)))
            elif r < 0.7:
                c['sigfield%d' % i] = rnd.randbytes(rnd.randrange(0, 12))
        c['timestamp'] = rnd.randrange(0, 2 ** 33)
        c['other'] = rnd.choice(([bytearray(b'ab'), b'cd', 5], bytearray(rnd.randbytes(5)),
                                 (bytearray(b'x'), bytearray(b'yz')), [b'', bytearray()]))
        c['note'] = rnd.choice(('text', 1.5, bytearray(b'\x01'), b'\x02'))
        return c

    def mk_stack():
        s = Stack()
        for _ in range(rnd.randrange(0, 6)):
            s.put(rnd.choice((rnd.randbytes(rnd.randrange(0, 9)), rnd.randbytes(32), rnd.randbytes(64),
                              rnd.randbytes(65), sk, b'\x01', b'\x00', b'\xff', b'')))
        return s

    def mk_script():
        out = b''
        for _ in range(rnd.randrange(1, 4)):
            r = rnd.random()
            if r < 0.3:
                out += get_value(rnd.choice(names))
            elif r < 0.4:
                out += bytes([code_of['OP_SIGN'], rnd.choice((0, 1, 2, 0x80, rnd.randrange(256)))])
            out += bytes([rnd.randrange(256)]) + rnd.choice((b'', rnd.randbytes(1), bytes([rnd.randrange(0, 4)]),
                                                              bytes([0, rnd.randrange(0, 4)])))
        if rnd.random() < 0.3:      # the same again inside TRY, so that a failing instruction does not end the run
            body = out[:255]
            out = bytes([code_of['OP_TRY_EXCEPT']]) + len(body).to_bytes(2, 'big') + body + b'\x00\x00' + body
        return out + rnd.randbytes(rnd.randrange(0, 4))

    class _Timeout(BaseException):
        pass

    def _alarm(*_):
        raise _Timeout()

    n = timeouts = 0
    bad = None
    codes_seen = set()
    total = 40000 if tier == 'quick' else 200000
    old = signal.signal(signal.SIGALRM, _alarm)
    try:
        for i in range(total):
            cache = mk_cache()
            script = bytes([i % 256]) + rnd.randbytes(rnd.randrange(0, 3)) if i < 2048 else mk_script()
            codes_seen.add(script[0])
            stack = mk_stack()
            if rnd.random() < 0.5:
                stack.put(sk)
            ids = {k: id(v) for k, v in cache.items()}
            snap = copy.deepcopy(cache)
            init = (script.hex(), repr(snap), repr(stack.list()))
            signal.setitimer(signal.ITIMER_REAL, 2.0)
            try:
                F.run_tape(Tape(script, flags=dict(F.flags)), stack, cache)
            except _Timeout:
                timeouts += 1
            except (KeyboardInterrupt, SystemExit):
                raise
            except BaseException:
                pass
            finally:
                signal.setitimer(signal.ITIMER_REAL, 0)
            n += 1
            for k, v in snap.items():
                if k == 'returned':
                    continue
                now = cache.get(k, '<deleted>')
                if k not in cache or id(now) != ids[k] or type(now) is not type(v) or now != v:
                    bad = bad or {'script': init[0], 'cache': init[1], 'stack': init[2], 'key': k,
                                  'before': repr(v), 'after': repr(now)}
            for k in cache:
                if isinstance(k, str) and k not in snap and k != 'returned':
                    bad = bad or {'script': init[0], 'cache': init[1], 'stack': init[2], 'key added': k}
            if bad:
                break
    finally:
        signal.signal(signal.SIGALRM, old)
    return {'obligations': [_ob('bounded/C08/mutable-values-under-str-keys', bad is None, bad)],
            'bounded': {'what': 'no instruction mutates in place a bytearray / list value stored under a str key '
                                '(same object, same type, equal deep copy after the run; key \'returned\' excluded: D5)',
                        'bound': f'{n} seeded scripts of 1..3 instructions (every opcode byte first, {len(codes_seen)} '
                                 f'distinct leading codes; GET_VALUE / SIGN biased; 30% wrapped in TRY), '
                                 f'{timeouts} stopped by the 2 s watchdog'}}

"""Bounded stand-ins (DESIGN.md 2.10): native checks of real functions where the deductive engine does
not reach, always labelled `bounded` with the bound stated, never counted as proved.  A failing bounded
check is reported as a violation with the concrete failing input."""
import math
import os
import random
import struct
import sys

sys.path.insert(0, os.environ.get('VERIF_REPO', '/repo'))


def _ob(name, ok, info=None):
    return {'name': name, 'kind': 'bounded', 'status': 'discharged' if ok else 'failed', 'backend': 'native',
            'time_s': 0.0, 'path': '', 'info': info or {}, 'inputs': None}


def c10_native(tier='quick', seed=0):
    import tapescript.functions as F
    rnd = random.Random(seed)
    kmax = 2048 if tier == 'quick' else 16384
    n_log = n_rt = 0
    bad = None
    for k in list(range(0, 130)) + list(range(130, kmax, 7 if tier == 'quick' else 1)):
        for d in (-3, -2, -1, 0, 1, 2, 3):
            n = (1 << k) + d
            if n <= 0:
                continue
            r = math.floor(math.log2(n))
            n_log += 1
            if not (n.bit_length() - 1 <= r <= n.bit_length()):
                raise RuntimeError(f'axiom A-LOG2 does not conform for n = 2**{k} + {d}')      # checker fault
            for v in (n, -n):
                n_rt += 1
                if F.bytes_to_int(F.int_to_bytes(v)) != v and bad is None:
                    bad = v
    for _ in range(2000 if tier == 'quick' else 200000):
        v = rnd.getrandbits(rnd.randrange(1, 8192)) * rnd.choice((1, -1))
        n_rt += 1
        if F.bytes_to_int(F.int_to_bytes(v)) != v and bad is None:
            bad = v
    # float32: bit patterns per exponent (and all patterns in thorough/partial)
    n_f = 0
    fbad = None
    for e in range(256):
        for s in (0, 1):
            for m in ([0, 1, 0x400000, 0x7fffff] + [rnd.getrandbits(23) for _ in range(8 if tier == 'quick' else 400)]):
                bits = (s << 31) | (e << 23) | m
                b = bits.to_bytes(4, 'big')
                f = F.bytes_to_float(b)
                n_f += 1
                if f != f:
                    continue        # NaN payloads: not required to be preserved bit-exactly
                if F.float_to_bytes(f) != b and fbad is None:
                    fbad = b.hex()
    obs = [_ob('bounded/C10/int-round-trip-native', bad is None, {'failing': str(bad)[:80]}),
           _ob('bounded/C10/float32-round-trip', fbad is None, {'failing': fbad})]
    return {'obligations': obs,
            'bounded': {'what': 'A-LOG2 conformance; native int round trip; float32 unpack->pack bit patterns',
                        'bound': f'2**k+d for k < {kmax}, |d| <= 3, both signs; {n_rt} ints; {n_f} float32 patterns '
                                 f'(all exponents, both signs, sampled mantissas)', 'log2_points': n_log}}


def c07_depth_note(tier='quick', seed=0):
    return {'summary': 'Python recursion depth per nesting level is not modelled (known finding D4)'}


def c09_set_tape_flags(tier='quick', seed=0):
    """set_tape_flags against its sidecar spec, natively, including additional_flags is tape.flags"""
    import copy
    import tapescript.functions as F
    from tapescript.classes import Tape
    sys.path.insert(0, os.path.dirname(os.path.dirname(os.path.abspath(__file__))))
    from contracts.functions_ctrl import effective_flags
    rnd = random.Random(seed)
    keys = list(F.flags) + ['eval_return', 'disallow_OP_EVAL', 11, 200, b'x', b'dummy']
    n = 0
    bad = None
    for _ in range(400 if tier == 'quick' else 20000):
        tf = {k: rnd.choice((True, False, 0, 60, -5)) for k in rnd.sample(keys, rnd.randrange(0, len(keys)))}
        af = {k: rnd.choice((True, False, 0, 60, -5)) for k in rnd.sample(keys, rnd.randrange(0, len(keys)))}
        for alias in (False, True):
            t = Tape(b'', flags=dict(tf))
            a = t.flags if alias else dict(af)
            want = effective_flags(dict(t.flags), dict(a))
            a0 = dict(a)
            F.set_tape_flags(t, a)
            n += 1
            if t.flags != want and bad is None:
                bad = {'tape_flags': repr(tf), 'additional_flags': 'tape.flags (same dict)' if alias else repr(af),
                       'got': repr(t.flags), 'want': repr(want)}
            if not alias and a != a0 and bad is None:
                bad = {'additional_flags modified': repr(a0)}
    return {'obligations': [_ob('bounded/C09/set_tape_flags-vs-spec', bad is None, bad)],
            'bounded': {'what': 'set_tape_flags(tape, additional_flags) == effective_flags spec, with and without '
                                'aliasing of the two dicts', 'bound': f'{n} seeded random flag dicts'}}


def c06_bytewise(tier='quick', seed=0):
    """xor / or_bytes / and_bytes against their (assumed) byte-wise contracts"""
    import tapescript.functions as F
    rnd = random.Random(seed)
    bad = None
    n = 0
    ops = ((F.xor, lambda x, y: x ^ y), (F.or_bytes, lambda x, y: x | y), (F.and_bytes, lambda x, y: x & y))
    for f, g in ops:
        for a in range(256):
            for b in range(256):
                n += 1
                if f(bytes([a]), bytes([b])) != bytes([g(a, b)]) and bad is None:
                    bad = (f.__name__, a, b)
        for _ in range(300 if tier == 'quick' else 20000):
            ln = rnd.randrange(0, 70)
            x, y = rnd.randbytes(ln), rnd.randbytes(ln)
            n += 1
            if f(x, y) != bytes(g(p, q) for p, q in zip(x, y)) and bad is None:
                bad = (f.__name__, x.hex(), y.hex())
    # P-XOR (prelude law used by bytes_are_same)
    for _ in range(2000):
        ln = rnd.randrange(0, 40)
        x = rnd.randbytes(ln)
        y = x if rnd.random() < 0.5 else rnd.randbytes(ln)
        if (int.from_bytes(F.xor(x, y), 'little') == 0) != (x == y):
            raise RuntimeError('prelude law xor_zero does not conform')
    return {'obligations': [_ob('bounded/C06/bytewise-helpers', bad is None, {'failing': repr(bad)})],
            'bounded': {'what': 'xor, or_bytes, and_bytes == byte-wise op', 'bound': f'all 1-byte pairs; {n} cases'}}


def c19_history(tier='quick', seed=0):
    """bounded-exhaustive histories over the registries (plugins x scopes, contracts, aliases, compile):
    the active entries are exactly those added and not since removed / reset; a run uses an entry iff
    it is active; compile results do not depend on earlier compilations.  Runs in a subprocess per
    history batch so that process-global registries start clean."""
    import itertools
    import subprocess
    import json
    depth = 4 if tier == 'quick' else 5
    code = r'''
import sys, itertools, json
sys.path.insert(0, sys.argv[1])
import tapescript.functions as F
import tapescript as ts
depth = int(sys.argv[2])
calls = []
P = [lambda t, s, c, i=i: calls.append(i) for i in range(3)]
scopes = ['signature_extensions', 'check_template']
acts = [('add', p, s) for p in range(3) for s in range(2)] + [('rem', p, s) for p in range(3) for s in range(2)] + \
       [('reset', 0, s) for s in range(2)]
bad = None
n = 0
probe = ts.compile_script('msg x00')
for h in itertools.product(range(len(acts)), repeat=depth):
    for s in scopes:
        F._plugins[s] = []
    model = {0: [], 1: []}
    for a in h:
        k, p, s = acts[a]
        if k == 'add':
            F.add_plugin(scopes[s], P[p])
            if p not in model[s]:
                model[s].append(p)
        elif k == 'rem':
            F.remove_plugin(scopes[s], P[p])
            if p in model[s]:
                model[s].remove(p)
        else:
            F.reset_plugins(scopes[s])
            model[s] = []
    n += 1
    got = [[P.index(f) for f in F._plugins[s]] for s in scopes]
    if got != [model[0], model[1]] and bad is None:
        bad = {'history': [acts[a] for a in h], 'active': got, 'expected': [model[0], model[1]]}
    if n % 97 == 0:
        calls.clear()
        ts.run_script(probe, {'sigfield1': b'a'})
        if sorted(calls) != sorted(model[0]) and bad is None:
            bad = {'history': [acts[a] for a in h], 'ran': list(calls), 'expected': model[0]}
for s in scopes:
    F._plugins[s] = []
# compile: result independent of what was compiled before (macros, variables, comptime)
srcs = ['!= m [ a ] { push a } !m [ d1 ]', 'push d1', '@= x [ d2 ] @x', 'push ~ { push d3 }', 'if { true } else { false }']
alone = {s: ts.compile_script(s) for s in srcs}
for perm in itertools.permutations(srcs, 3):
    for s in perm:
        n += 1
        if ts.compile_script(s) != alone[s] and bad is None:
            bad = {'compile-history': list(perm), 'source': s}
try:
    ts.compile_script('!m [ d1 ]')
    if bad is None:
        bad = {'macro leaked across compile_script calls': '!m [ d1 ]'}
except BaseException:
    pass
# caller dictionaries are not modified by run_script / run_auth_scripts
cv, ct, pl = {'sigfield1': b'a'}, {}, {'signature_extensions': []}
snap = (dict(cv), dict(ct), {k: list(v) for k, v in pl.items()})
ts.run_script(ts.compile_script('true return'), cv, ct, plugins=pl)
ts.run_auth_scripts([ts.compile_script('true')], cv, ct, pl)
if (cv, ct, pl) != snap and bad is None:
    bad = {'caller dict modified': repr((cv, ct, pl))}
print('RESULT ' + json.dumps({'n': n, 'bad': bad}, default=str))
'''
    repo = os.environ.get('VERIF_REPO', '/repo')
    p = subprocess.run([sys.executable, '-c', code, repo, str(depth)], capture_output=True, text=True, timeout=3000)
    res = None
    for line in p.stdout.splitlines():
        if line.startswith('RESULT '):
            res = json.loads(line[7:])
    if res is None:
        raise RuntimeError('c19_history harness failed: ' + (p.stderr or '')[-800:])
    return {'obligations': [_ob('bounded/C19/registry-histories', res['bad'] is None, res['bad'])],
            'bounded': {'what': 'plugin registry histories over {add, remove, reset} x 3 plugins x 2 scopes; '
                                'compile history independence; caller dictionaries unmodified',
                        'bound': f'all histories of length {depth} ({res["n"]} cases incl. compile permutations)',
                        'exhaustive_up_to_bound': True}}

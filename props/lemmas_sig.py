def c02_lemmas(tier='quick', seed=0):
    return {}

import json, sys
sys.path.insert(0,'/verif')
props=[json.loads(l) for l in open('/verif/properties.jsonl')]
from props.registry import PROPS
LEVEL = {
 'C01': ('proof', "every obligation generated from the current source is discharged by z3/cvc5: the ghost predicate clean(cache) is a precondition of every instruction and of run_tape, is re-established (or the tape has ended) after every instruction, and run_auth_scripts must establish it at each run_tape call site; the verdict clauses of run_auth_scripts are postconditions of its body, for lists of 1..4 scripts of arbitrary bytes. For all programs by induction over the dispatch loop (program text never occurs in an obligation)."),
 'C02': ('proof', "body-refines-spec for the six signature instructions against msg(cache, flag) taken from the property, for all 256x256 (flag, allowed) pairs, all field-presence patterns and contents, all stack / limit states; Ed25519 verify/sign are uninterpreted (E4). Negative clauses that are only true under cryptographic idealisations are not decided."),
 'C06': ('proof', "body-refines-spec on every path for every instruction that has a documentation-derived spec (about 75 of 93 table entries), for all operands, stacks, caches and limits; the remaining entries are verified against the common op contract only and listed in the evidence."),
 'C07': ('proof', "stack_ok / tape_ok are pre- and postconditions of every table entry and the loop invariant of run_tape; every raw deque.append carries len < maxlen; every Tape.read call site proves size >= 0; every loop has an inductive invariant and a variant; allocating primitives with a symbolic size carry the allocation bound."),
 'C08': ('proof', "frame clause on the str key space of the cache (array equality on the str-keyed map) proved for every table entry on normal and exceptional exits, under the property's own hypothesis that no plugin is installed; the three writers of the interpreter's own 'returned' key are a known finding."),
 'C09': ('proof', "call-site assertion at every run_tape call inside an instruction: effective flags, plugins, contracts and call-stack limit of the sub-tape equal those of the calling tape; flag frame for every instruction other than the two flag instructions; set_tape_flags itself is an assumed contract with a bounded stand-in (labelled)."),
 'C10': ('proof', "int_to_bytes / bytes_to_int bodies verified against the two's-complement spec for ALL integers (unbounded), using ground instances of the pow2 / bitlen laws and the stated assumption A-LOG2; float wrappers: type and length checks proved, bit-exactness is struct's (bounded stand-in, labelled)."),
 'C12': ('proof', "termination and no-backward-read of decompile_script for ALL byte strings: the body is verified with a loop variant (unread bytes), a recursion measure (script length strictly decreases at each of the 9 recursive call sites) and size >= 0 at each of the Tape.read call sites on every path (about 180 paths over the whole opcode table); the round-trip and listing-exactness clauses are a bounded stand-in against a reference encoder (labelled bounded in the evidence, not counted as proved)."),
 'C16': ('proof', "the four time instructions refine the window formulas stated in the property for all (t, now, c, threshold) and constraint items of every length."),
 'C19': ('proof', "add/remove/reset of plugins, contracts and signature extensions verified against set-semantics postconditions over the module registries (quantified over all registry contents and scopes): after add the extension is active exactly once, after remove/reset it is not, every other entry is unchanged; run_script / run_auth_scripts read the registries at call time (ensures over the tape they build); histories of operations follow by composition of the per-operation postconditions, with a bounded native history check (labelled bounded) as cross-check."),
 'C20': ('proof', "NOP body refines 'read one signed count byte, remove that many items, nothing else' for all states; run_tape's dispatch never raises KeyError (all 256 codes covered); table partition and NOP compile/decompile handlers checked exhaustively on the live tables (256 x free codes)."),
}
NOTE = "trusted: z3/cvc5, the pyvc VC generator (encoding of Python semantics per DESIGN.md 2.4), CPython for concrete operations, assumed contracts on libsodium/hashlib/struct, contracts marked trusted in the sidecar (listed in every evidence file); see evidence.assumptions"
checks=[]
for pid in sorted(PROPS):
    lv, text = LEVEL[pid]
    checks.append({"property_id": pid, "quick_cmd": f"./check {pid} --tier quick", "thorough_cmd": f"./check {pid} --tier thorough",
        "evidence_file": f"evidence/{pid}.json", "replay_cmd_template": f"./check {pid} --replay {{path}}", "engine": "pyvc",
        "level_claimed": {"category": lv, "text": text, "design_ref": f"DESIGN.md section 3 {pid}"},
        "level_note": NOTE, "technique": "contract-based deductive verification: sidecar contracts on the real Python source, VCs generated from the AST, discharged by z3 (cvc5 for unknowns)"})
na=[{"property_id":p["id"],"reason":"check under construction in this session (contracts for its cone are not complete yet); see DESIGN.md section 7"} for p in props if p["id"] not in PROPS]
m={"version":1,"setup_cmd":"./setup.sh",
 "hooks":{"guard":"TAPESCRIPT_VERIF","enable":"no source hooks: contracts are sidecar files under /verif/contracts, monitors and the pinned clock are attached from /verif","baseline_off_cmd":"cd /repo && /venv/bin/python -m pytest -ra -q -p no:cacheprovider --timeout=900 --continue-on-collection-errors","source_commits":[],"add_only":True},
 "engines":[{"name":"pyvc","path":"pyvc/","serves_properties":sorted(PROPS),"kind_free_text":"home-grown VC generator: symbolic executor over the Python AST of /repo/tapescript/*.py re-read on every run, sidecar contracts (requires / spec / ensures / modifies / loop invariants and variants / call-site assertions), modular calls, obligations discharged by z3 5.1 with cvc5 1.0.3 for unknowns"}],
 "checks":checks,
 "notes":"repairs of genuine defects are `fix:` commits in /repo, recorded in known_findings.json; open findings are reported as KNOWN-FINDING lines",
 "not_applicable":na}
json.dump(m,open('/verif/MANIFEST.json','w'),indent=1)
import jsonschema; jsonschema.validate(m,json.load(open('/root/.vp/MANIFEST.schema.json'))); print('manifest ok', len(checks), 'checks')

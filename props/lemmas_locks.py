"""Lock / witness lemmas (C13, C05, C04): run_auth_scripts([witness, lock], sigfields) on the byte
templates of the builders, with symbolic keys, signatures, scripts and sigfields (lemma mode).

The VM is executed from its real bodies (run_auth_scripts, run_script, run_tape, IF / EVAL / TAPROOT /
MERKLEVAL ...); data instructions are applied through their verified contracts; OP_CHECK_SIG is applied
through the abstract contract abs_check_sig (justified by lemma C03/abs-sound), with sig_valid an
uninterpreted predicate of (sigfields, allowed flags, key, signature).

What each lemma states (for ALL keys, signatures, sigfields, flag bytes):
  sound     verdict True  =>  the unlocking condition of the property holds
  complete  unlocking condition and no instruction failed for a resource reason (the unknown failure
            choices of the abstract contract are all False)  =>  verdict True
The builders' byte output equals the template: validated natively on seeded samples on every run
(translation validation, bounded, labelled)."""
import os
import random
import sys

ROOT = os.path.dirname(os.path.dirname(os.path.abspath(__file__)))
sys.path.insert(0, ROOT)
sys.path.insert(0, os.environ.get('VERIF_REPO', '/repo'))
from props import templates as T   # noqa: E402
from props.lemutil import push_var, push_fixed, verdict_bool, ob   # noqa: E402


class Env:
    """shared setup of one lemma run"""

    def __init__(self, ip, mk, src, reg):
        import z3
        import contracts.functions_ops2 as O2
        import contracts.functions_ops as O1
        import contracts.functions_ctrl as OC
        from pyvc import vocab
        self.ip, self.mk, self.src, self.reg, self.z3 = ip, mk, src, reg, z3
        self.F = src.live['functions']
        self.O2 = O2
        self.vocab = vocab
        ctx = ip.ctx
        ctx.ghost['opaque_defs'] = {'sig_valid'}
        ctx.ghost['spec_override'] = {'functions.OP_CHECK_SIG': reg.side_ast(O2.abs_check_sig)}
        self.cache_vals = mk.dict('sigfields')
        for f, args in ((O1.sigfields_ok, [self.cache_vals]),):
            for _, c in ip.clauses(ip.call_ast(reg.side_ast(f), args, {})):
                ctx.assume(ip.cval(c))
        # a valid embedder cache: no interpreter control key (finding D5)
        ctx.assume(z3.Not(ip.truth(ip.call_ast(reg.side_ast(OC.has_returned), [self.cache_vals], {}))))
        self.sf = ip.call(vocab.restrict_str, [self.cache_vals, O2.SIGFIELDS], {})
        self.sig_valid_ast = reg.side_ast(O2.sig_valid)

    def sig_valid(self, allowed, key, sig):
        from pyvc.sym import zbool
        return zbool(self.ip.truth(self.ip.call(self.vocab.defined,
                                                ['sig_valid', self.sig_valid_ast, self.sf, allowed, key, sig], {})))

    def run(self, scripts):
        return verdict_bool(self.ip, self.ip.call(self.F.run_auth_scripts, [list(scripts), self.cache_vals], {}))

    def stop_at_eval(self, name, cond_fn, script):
        """OP_EVAL of the supplied (arbitrary) script is replaced by abs_eval_stop: the claim `the script
        starts only if cond` is stated where it would start; returns a box whose 'reached' entry tells
        whether this path got there"""
        import contracts.functions_ctrl as OC
        from pyvc.sym import bexpr
        ctx = self.ip.ctx
        box = {'reached': False}
        ctx.ghost['spec_override']['functions.OP_EVAL'] = self.reg.side_ast(OC.abs_eval_stop)
        ctx.ghost['inline_extra'] = set(ctx.ghost['inline_extra']) - {'functions.OP_EVAL'}

        def at_eval(ip, sc, stack):
            box['reached'] = True
            ip.ctx.oblige(f'{name}/starts-only-if', cond_fn(), 'lemma')
            ip.ctx.oblige(f'{name}/starts-the-supplied-script', bexpr(ip.resolve(sc)) == bexpr(script), 'lemma')
        ctx.ghost['lemma_points'] = {'eval': at_eval}
        return box

    def no_failure(self):
        """none of the abstract contract's unknown failure choices was taken"""
        z3 = self.z3
        n = self.ip.ctx.counters.get('unk:check_sig_fails', 0)
        return z3.And(*[z3.Not(z3.Bool(f'unk_check_sig_fails#{k}')) for k in range(n)]) if n else z3.BoolVal(True)


def _byte(name):
    import z3
    from pyvc.sym import sym_bytes
    b = z3.BitVec(name, 8)
    return b, sym_bytes(z3.Unit(b), 1)


# ------------------------------------------------------------------------------------------------
def lemma_single_sig(e):
    """make_single_sig_lock: `push <pk> check_sig <flags>`; witness: `push <sig>` (any bytes 1..255)"""
    import z3
    from pyvc.sym import mkbytes, bexpr
    ip, mk = e.ip, e.mk
    pk = mk.bytes('pk', 32)
    a, a_b = _byte('allowed')
    w = mk.bytes('w')
    ip.ctx.assume(z3.And(z3.Length(bexpr(w)) >= 1, z3.Length(bexpr(w)) <= 255))
    lock = mkbytes([push_fixed(pk), T.op('OP_CHECK_SIG'), a_b])
    witness = push_var(ip, w, 'w')
    v = e.run([witness, lock])
    cond = e.sig_valid(z3.BV2Int(a), pk, w)
    ip.ctx.oblige('single-sig/sound', z3.Implies(v, cond), 'lemma')
    ip.ctx.oblige('single-sig/complete', z3.Implies(z3.And(cond, e.no_failure()), v), 'lemma')


# ------------------------------------------------------------------------------------------------
# Templates: ONE text per builder, rendered natively (bytes, for the validation against the real
# builder) and symbolically (segments, for the lemma).  Parts: bytes | ('push', data) | ('block', parts)
def render(parts, ip=None, tag='p'):
    from pyvc.sym import mkbytes, is_bytes
    out = []
    for k, p in enumerate(parts):
        if isinstance(p, tuple) and p[0] == 'push':
            d = p[1]
            if isinstance(d, bytes):
                out.append(T.push(d))
            else:
                n = d.length() if hasattr(d, 'length') else None
                out.append(push_fixed(d) if isinstance(n, int) else push_var(ip, d, f'{tag}{k}'))
        elif isinstance(p, tuple) and p[0] == 'block':
            body = render(p[1], ip, f'{tag}{k}_')
            n = len(body) if isinstance(body, bytes) else body.length()
            assert isinstance(n, int), 'block bodies have a concrete length'
            out.append(n.to_bytes(2, 'big'))
            out.append(body)
        else:
            out.append(p)
    if all(isinstance(x, bytes) for x in out):
        return b''.join(out)
    return mkbytes(out)


def t_single_sig_lock(pk, a):
    return [('push', pk), T.op('OP_CHECK_SIG'), a]


def t_single_sig_lock2(h20, a):
    return [T.op('OP_DUP'), T.op('OP_SHAKE256'), bytes([20]), ('push', h20), T.op('OP_EQUAL_VERIFY'),
            T.op('OP_CHECK_SIG'), a]


def t_scripthash_lock(h, hashsize):
    return [T.op('OP_DUP'), T.op('OP_SHAKE256'), bytes([hashsize]), ('push', h), T.op('OP_EQUAL_VERIFY'), T.op('OP_EVAL')]


def t_graftroot_lock(pk, a):
    # `@= k [ x<pk> ]` stores the key in the cache under b'k' (OP_WRITE_CACHE), `@k` reads it back
    rd = T.op('OP_READ_CACHE') + b'\x01k'
    return [('push', pk), T.op('OP_WRITE_CACHE'), b'\x01k\x01', T.op('OP_IF_ELSE'),
            ('block', [T.op('OP_DUP'), T.op('OP_SWAP'), b'\x01\x02', rd, T.op('OP_CHECK_SIG_STACK'),
                       T.op('OP_VERIFY'), T.op('OP_EVAL')]),
            ('block', [rd, T.op('OP_CHECK_SIG'), a])]


def t_taproot_lock(root, a):
    return [('push', root), T.op('OP_TAPROOT'), a]


def t_merkle_lock(root):
    return [T.op('OP_MERKLEVAL'), root]


def validate_templates(seed, n):
    """translation validation (bounded): real builder output == rendered template on seeded samples"""
    import hashlib
    from nacl.signing import SigningKey
    from tapescript import tools
    from tapescript.functions import (clamp_scalar, derive_point_from_scalar, aggregate_points, xor)
    rnd = random.Random(seed)
    bad = None
    cnt = 0

    def chk(name, got, want):
        nonlocal bad, cnt
        cnt += 1
        if bytes(got) != want and bad is None:
            bad = (name, bytes(got).hex()[:120], want.hex()[:120])
    for _ in range(n):
        sk = SigningKey(rnd.randbytes(32))
        pk = bytes(sk.verify_key)
        a = rnd.choice((b'\x00', b'\x01', b'\x7f', b'\x80', b'\xff', rnd.randbytes(1)))
        chk('single_sig_lock', tools.make_single_sig_lock(pk, a.hex()), render(t_single_sig_lock(pk, a)))
        chk('single_sig_lock2', tools.make_single_sig_lock2(pk, a.hex()),
            render(t_single_sig_lock2(hashlib.shake_256(pk).digest(20), a)))
        sc = tools.Script.from_src(rnd.choice(('true', 'push d1 push d2 add_ints d2', 'push x' + rnd.randbytes(40).hex())))
        hs = rnd.choice((20, 26, 32))
        chk('scripthash_lock', tools.make_scripthash_lock(sc, hs),
            render(t_scripthash_lock(hashlib.shake_256(sc.bytes).digest(hs), hs)))
        chk('scripthash_witness', tools.make_scripthash_witness(sc), render([('push', sc.bytes)]))
        chk('graftroot_lock', tools.make_graftroot_lock(pk, a.hex()), render(t_graftroot_lock(pk, a)))
        X = derive_point_from_scalar(clamp_scalar(hashlib.sha256(pk + sc.commitment()).digest()))
        root = aggregate_points((pk, X))
        chk('taproot_lock', tools.make_taproot_lock(pk, sc, sigflags=a.hex()), render(t_taproot_lock(root, a)))
        # graftap = taproot lock committing to the graftroot-style script of the same key, same flags
        gs = tools._make_graftap_committed_script(pk)
        Xg = derive_point_from_scalar(clamp_scalar(hashlib.sha256(pk + gs.commitment()).digest()))
        chk('graftap_lock', tools.make_graftap_lock(pk, a.hex()), render(t_taproot_lock(aggregate_points((pk, Xg)), a)))
        chk('graftap_committed_script', gs,
            render([T.op('OP_DUP'), T.op('OP_SWAP'), b'\x01\x02', ('push', pk), T.op('OP_CHECK_SIG_STACK'),
                    T.op('OP_VERIFY'), T.op('OP_EVAL')]))
        chk('taproot_witness_scriptspend', tools.make_taproot_witness_scriptspend(pk, sc),
            render([('push', sc.bytes), ('push', pk)]))
        sc2 = tools.Script.from_src('false')
        node = tools.ScriptNode(tools.ScriptLeaf.from_script(sc), tools.ScriptLeaf.from_script(sc2))
        mroot = xor(hashlib.sha256(sc.commitment()).digest(), hashlib.sha256(sc2.commitment()).digest())
        chk('merkle_lock', node.locking_script(), render(t_merkle_lock(mroot)))
        chk('merkle_unlock', node.left.unlocking_script(), render([('push', sc2.commitment()), ('push', sc.bytes)]))
    return ob('templates/locks', bad is None, {'failing': repr(bad)}), cnt


def lemma_single_sig2(e):
    """make_single_sig_lock2: `dup shake256 d20 push <H20> equal_verify check_sig <flags>`;
    witness: `push <sig> push <key>`"""
    import z3
    from pyvc.sym import bexpr
    ip, mk = e.ip, e.mk
    h20 = mk.bytes('h20', 20)
    a, a_b = _byte('allowed')
    w = mk.bytes('w')
    k = mk.bytes('k')
    for x in (w, k):
        ip.ctx.assume(z3.And(z3.Length(bexpr(x)) >= 1, z3.Length(bexpr(x)) <= 255))
    lock = render(t_single_sig_lock2(h20, a_b), ip)
    witness = render([('push', w), ('push', k)], ip, 'wit')
    v = e.run([witness, lock])
    hk = ip.call(e.vocab.shake256, [k, 20], {})
    cond = z3.And(bexpr(hk) == bexpr(h20), e.sig_valid(z3.BV2Int(a), k, w))
    ip.ctx.oblige('single-sig2/sound', z3.Implies(v, cond), 'lemma')
    ip.ctx.oblige('single-sig2/complete', z3.Implies(z3.And(cond, e.no_failure()), v), 'lemma')


def lemma_scripthash(e):
    """make_scripthash_lock: `dup shake256 d<hs> push <H> equal_verify eval`; witness `push <script>`:
    the supplied script starts only if it hashes to the committed digest, and then it does"""
    import z3
    from pyvc.sym import bexpr
    ip, mk = e.ip, e.mk
    hs = 26
    h = mk.bytes('h', hs)
    sc = mk.bytes('script')
    ip.ctx.assume(z3.And(z3.Length(bexpr(sc)) >= 1, z3.Length(bexpr(sc)) <= 255))
    lock = render(t_scripthash_lock(h, hs), ip)
    witness = render([('push', sc)], ip, 'wit')
    hk = ip.call(e.vocab.shake256, [sc, hs], {})
    cond = bexpr(hk) == bexpr(h)
    box = e.stop_at_eval('scripthash', lambda: cond, sc)
    e.run([witness, lock])
    if not box['reached']:
        ip.ctx.oblige('scripthash/complete', z3.Not(cond), 'lemma')
    else:
        ip.ctx.oblige('scripthash/sound', True, 'lemma')


def lemma_graftroot_key(e):
    """make_graftroot_lock, key path: witness `push <sig> false`"""
    import z3
    from pyvc.sym import bexpr
    ip, mk = e.ip, e.mk
    pk = mk.bytes('pk', 32)
    a, a_b = _byte('allowed')
    w = mk.bytes('w')
    ip.ctx.assume(z3.And(z3.Length(bexpr(w)) >= 1, z3.Length(bexpr(w)) <= 255))
    lock = render(t_graftroot_lock(pk, a_b), ip)
    witness = render([('push', w), T.op('OP_FALSE')], ip, 'wit')
    v = e.run([witness, lock])
    cond = e.sig_valid(z3.BV2Int(a), pk, w)
    ip.ctx.oblige('graftroot-key/sound', z3.Implies(v, cond), 'lemma')
    ip.ctx.oblige('graftroot-key/complete', z3.Implies(z3.And(cond, e.no_failure()), v), 'lemma')


def lemma_graftroot_surrogate(e):
    """make_graftroot_lock, surrogate path: witness `push <sig over script> push <script> true`:
    the surrogate script starts only if it is signed by the lock's key, and then it does"""
    import z3
    from pyvc.sym import bexpr
    from pyvc import crypto
    ip, mk = e.ip, e.mk
    pk = mk.bytes('pk', 32)
    a, a_b = _byte('allowed')
    g = mk.bytes('g')
    sc = mk.bytes('script')
    for x in (g, sc):
        ip.ctx.assume(z3.And(z3.Length(bexpr(x)) >= 1, z3.Length(bexpr(x)) <= 255))
    lock = render(t_graftroot_lock(pk, a_b), ip)
    witness = render([('push', g), ('push', sc), T.op('OP_TRUE')], ip, 'wit')
    cond = z3.And(z3.Length(bexpr(g)) == 64, crypto.ed_verify(bexpr(pk), bexpr(sc), bexpr(g)))
    box = e.stop_at_eval('graftroot-surrogate', lambda: cond, sc)
    e.run([witness, lock])
    if not box['reached']:
        ip.ctx.oblige('graftroot-surrogate/complete', z3.Not(cond), 'lemma')
    else:
        ip.ctx.oblige('graftroot-surrogate/sound', True, 'lemma')


def lemma_taproot_key(e):
    """make_taproot_lock, key path: witness `push <sig>` (not 32 bytes long): valid under the ROOT as key"""
    import z3
    from pyvc.sym import bexpr
    ip, mk = e.ip, e.mk
    root = mk.bytes('root', 32)
    a, a_b = _byte('allowed')
    w = mk.bytes('w')
    ip.ctx.assume(z3.And(z3.Length(bexpr(w)) >= 1, z3.Length(bexpr(w)) <= 255, z3.Length(bexpr(w)) != 32))
    lock = render(t_taproot_lock(root, a_b), ip)
    witness = render([('push', w)], ip, 'wit')
    v = e.run([witness, lock])
    cond = e.sig_valid(z3.BV2Int(a), root, w)
    ip.ctx.oblige('taproot-key/sound', z3.Implies(v, cond), 'lemma')
    ip.ctx.oblige('taproot-key/complete', z3.Implies(z3.And(cond, e.no_failure()), v), 'lemma')


def lemma_taproot_script(e):
    """make_taproot_lock, script path: witness `push <script> push <key>` (key 32 bytes): accepted only
    if key + clamp(sha256(key || sha256(script)))*G equals the root"""
    import z3
    from pyvc.sym import bexpr, mkbytes
    ip, mk = e.ip, e.mk
    F = e.F
    root = mk.bytes('root', 32)
    a, a_b = _byte('allowed')
    k = mk.bytes('k', 32)
    sc = mk.bytes('script')
    ip.ctx.assume(z3.And(z3.Length(bexpr(sc)) >= 1, z3.Length(bexpr(sc)) <= 255))
    lock = render(t_taproot_lock(root, a_b), ip)
    witness = render([('push', sc), ('push', k)], ip, 'wit')
    # the commitment of the property, computed by the repository's own helpers (under contract)
    try:
        h = ip.call(e.vocab.sha256, [mkbytes([k, ip.call(e.vocab.sha256, [sc], {})])], {})
        X = ip.call(F.derive_point_from_scalar, [ip.call(F.clamp_scalar, [h], {})], {})
        commit = ip.call(F.aggregate_points, [(X, k)], {})
        ok = bexpr(commit) == bexpr(root)
    except Exception as ex:  # noqa: BLE001  (an invalid point: the commitment cannot be formed)
        from pyvc.interp import PyRaise
        if not isinstance(ex, PyRaise):
            raise
        ok = z3.BoolVal(False)
    box = e.stop_at_eval('taproot-script', lambda: ok, sc)
    e.run([witness, lock])
    if not box['reached']:
        ip.ctx.oblige('taproot-script/complete', z3.Not(ok), 'lemma')
    else:
        ip.ctx.oblige('taproot-script/sound', True, 'lemma')


def lemma_merkle1(e):
    """one tree level: lock `OP_MERKLEVAL <root>`, witness `push <sibling commitment> push <script>`:
    accepted only if sha256(sha256(script)) xor sha256(sibling) is the root"""
    import z3
    from pyvc.sym import bexpr
    ip, mk = e.ip, e.mk
    F = e.F
    root = mk.bytes('root', 32)
    hsib = mk.bytes('sibling', 32)
    sc = mk.bytes('script')
    ip.ctx.assume(z3.And(z3.Length(bexpr(sc)) >= 1, z3.Length(bexpr(sc)) <= 255))
    lock = render(t_merkle_lock(root), ip)
    witness = render([('push', hsib), ('push', sc)], ip, 'wit')
    sha = e.vocab.sha256
    x = ip.call(F.xor, [ip.call(sha, [hsib], {}), ip.call(sha, [ip.call(sha, [sc], {})], {})], {})
    cond = bexpr(x) == bexpr(root)
    box = e.stop_at_eval('merkle1', lambda: cond, sc)
    e.run([witness, lock])
    if not box['reached']:
        ip.ctx.oblige('merkle1/complete', z3.Not(cond), 'lemma')
    else:
        ip.ctx.oblige('merkle1/sound', True, 'lemma')


# ------------------------------------------------------------------------------------------ C15
def t_htlc_lock(hash_op, digest, receiver, ts_enc, refund, a):
    """make_htlc_sha256_lock / make_htlc_shake256_lock"""
    return list(hash_op) + [('push', digest), T.op('OP_EQUAL'), T.op('OP_IF_ELSE'),
                            ('block', [('push', receiver)]),
                            ('block', [('push', ts_enc), T.op('OP_CHECK_TIMESTAMP_VERIFY'), ('push', refund)]),
                            T.op('OP_CHECK_SIG'), a]


def t_ptlc_lock(receiver, ts_enc, refund, a):
    return [T.op('OP_IF_ELSE'), ('block', [('push', receiver)]),
            ('block', [('push', ts_enc), T.op('OP_CHECK_TIMESTAMP_VERIFY'), ('push', refund)]),
            T.op('OP_CHECK_SIG'), a]


def validate_templates_c15(seed, n):
    import hashlib
    import time as _t
    from nacl.signing import SigningKey
    from tapescript import tools
    import tapescript.tools as TL
    from tapescript.functions import int_to_bytes, aggregate_points
    rnd = random.Random(seed)
    bad = None
    cnt = 0
    real_time = TL.time
    try:
        for _ in range(n):
            now = rnd.choice((1700000000, 2**31 - 100, 2**31 + 5, 2**32 + 7, rnd.randrange(10**9, 2**33)))
            TL.time = lambda now=now: now
            timeout = rnd.choice((60, 86400, 3))
            enc = int_to_bytes(now + timeout)
            pk1 = bytes(SigningKey(rnd.randbytes(32)).verify_key)
            pk2 = bytes(SigningKey(rnd.randbytes(32)).verify_key)
            pre = rnd.randbytes(rnd.randrange(16, 33))
            a = rnd.choice((b'\x00', b'\x01', b'\xff', rnd.randbytes(1)))
            for name, got, want in (
                ('htlc_sha256', tools.make_htlc_sha256_lock(pk1, pk2, preimage=pre, timeout=timeout, sigflags=a.hex()),
                 render(t_htlc_lock([T.op('OP_SHA256')], hashlib.sha256(pre).digest(), pk1, enc, pk2, a))),
                ('htlc_shake256', tools.make_htlc_shake256_lock(pk1, pk2, preimage=pre, timeout=timeout, sigflags=a.hex()),
                 render(t_htlc_lock([T.op('OP_SHAKE256'), bytes([20])], hashlib.shake_256(pre).digest(20), pk1, enc, pk2, a))),
                ('ptlc', tools.make_ptlc_lock(pk1, pk2, timeout=timeout, sigflags=a.hex()),
                 render(t_ptlc_lock(pk1, enc, pk2, a))),
                ('ptlc_tweak', tools.make_ptlc_lock(pk1, pk2, tweak_point=pk2, timeout=timeout, sigflags=a.hex()),
                 render(t_ptlc_lock(aggregate_points([pk1, pk2]), enc, pk2, a))),
            ):
                cnt += 1
                if bytes(got) != want and bad is None:
                    bad = (name, bytes(got).hex()[:160], want.hex()[:160])
    finally:
        TL.time = real_time
    return ob('templates/C15-locks', bad is None, {'failing': repr(bad)}), cnt


def _time_cond(e, tsb):
    """OP_CHECK_TIMESTAMP_VERIFY passes (C16): t >= c and t - now < ts_threshold (default 60)"""
    import z3
    ip = e.ip
    c = ip.call(e.vocab.ubig, [tsb], {})
    now = ip.ctx.ghost.get('now')
    t = e.t
    from pyvc.sym import zint
    return z3.And(t >= zint(c), (t - now < 60) if now is not None else z3.BoolVal(True))


def _htlc(e, name, hash_parts, hname, hlen, ts_len):
    import z3
    from pyvc.sym import bexpr
    from pyvc import models
    ip, mk = e.ip, e.mk
    digest = mk.bytes('digest', hlen)
    receiver = mk.bytes('receiver', 32)
    refund = mk.bytes('refund', 32)
    tsb = mk.bytes('ts', ts_len)
    a, a_b = _byte('allowed')
    w = mk.bytes('w')
    p = mk.bytes('preimage')
    for x in (w, p):
        ip.ctx.assume(z3.And(z3.Length(bexpr(x)) >= 1, z3.Length(bexpr(x)) <= 255))
    e.t = mk.int('t')
    models.hdict_set(ip, e.cache_vals, 'timestamp', e.t)
    lock = render(t_htlc_lock(hash_parts, digest, receiver, tsb, refund, a_b), ip)
    witness = render([('push', w), ('push', p)], ip, 'wit')
    v = e.run([witness, lock])
    hp = ip.call(getattr(e.vocab, hname), [p] + ([hlen] if hname == 'shake256' else []), {})
    match = bexpr(hp) == bexpr(digest)
    al = z3.BV2Int(a)
    claim = z3.Or(z3.And(match, e.sig_valid(al, receiver, w)),
                  z3.And(z3.Not(match), _time_cond(e, tsb), e.sig_valid(al, refund, w)))
    ip.ctx.oblige(f'{name}/sound', z3.Implies(v, claim), 'lemma')
    ip.ctx.oblige(f'{name}/complete', z3.Implies(z3.And(claim, e.no_failure()), v), 'lemma')


def lemma_htlc_sha256(e):
    """make_htlc_sha256_lock + make_htlc_witness shape `push <sig> push <preimage>`: claim path iff the
    preimage hashes to the digest and the signature is the receiver's; refund path iff it does not, the
    timeout has been reached (C16 window) and the signature is the refund key's"""
    _htlc(e, 'htlc-sha256', [T.op('OP_SHA256')], 'sha256', 32, 4)


def lemma_htlc_sha256_5(e):
    """same with a 5-byte timestamp operand (2**31 <= ts < 2**39)"""
    _htlc(e, 'htlc-sha256-ts5', [T.op('OP_SHA256')], 'sha256', 32, 5)


def lemma_htlc_shake256(e):
    _htlc(e, 'htlc-shake256', [T.op('OP_SHAKE256'), bytes([20])], 'shake256', 20, 4)


def lemma_ptlc(e):
    """make_ptlc_lock: witness `push <sig> true|false`"""
    import z3
    from pyvc.sym import bexpr
    from pyvc import models
    ip, mk = e.ip, e.mk
    receiver = mk.bytes('receiver', 32)
    refund = mk.bytes('refund', 32)
    tsb = mk.bytes('ts', 4)
    a, a_b = _byte('allowed')
    w = mk.bytes('w')
    ip.ctx.assume(z3.And(z3.Length(bexpr(w)) >= 1, z3.Length(bexpr(w)) <= 255))
    e.t = mk.int('t')
    models.hdict_set(ip, e.cache_vals, 'timestamp', e.t)
    lock = render(t_ptlc_lock(receiver, tsb, refund, a_b), ip)
    al = z3.BV2Int(a)
    for which, opb in (('claim', T.op('OP_TRUE')), ('refund', T.op('OP_FALSE'))):
        if which == 'refund' and not ip.ctx.branch(z3.Bool('ptlc_refund_path'), 'which witness'):
            return
        if which == 'claim' and ip.ctx.branch(z3.Bool('ptlc_refund_path'), 'which witness'):
            continue
        witness = render([('push', w), opb], ip, 'wit')
        v = e.run([witness, lock])
        claim = e.sig_valid(al, receiver, w) if which == 'claim' else z3.And(_time_cond(e, tsb), e.sig_valid(al, refund, w))
        ip.ctx.oblige(f'ptlc-{which}/sound', z3.Implies(v, claim), 'lemma')
        ip.ctx.oblige(f'ptlc-{which}/complete', z3.Implies(z3.And(claim, e.no_failure()), v), 'lemma')
        return


# ------------------------------------------------------------------------------------------ C14
_HOLES = {}


def builder_template(name, build, hole_lens):
    """template of a builder whose script text is fixed apart from fixed-size data holes, extracted
    MECHANICALLY: build it natively with two sets of marker values and take the positions where the
    bytes differ.  Returns (bytes, [(offset, length)]) -- the caller splices data into the holes; the
    splice is validated against the real builder on random data on every run."""
    if name in _HOLES:
        return _HOLES[name]
    m1 = [bytes([0x11 + k]) * n for k, n in enumerate(hole_lens)]
    m2 = [bytes([0xa1 + k]) * n for k, n in enumerate(hole_lens)]
    b1, b2 = build(*m1), build(*m2)
    assert len(b1) == len(b2), 'builder output length depends on the data'
    holes = []
    for k, n in enumerate(hole_lens):
        off = b1.find(m1[k])
        assert off >= 0 and b2[off:off + n] == m2[k] and b1.count(m1[k]) == 1, f'hole {k} not found exactly once'
        holes.append((off, n))
    rest1 = bytearray(b1)
    rest2 = bytearray(b2)
    for off, n in holes:
        rest1[off:off + n] = b'\0' * n
        rest2[off:off + n] = b'\0' * n
    assert rest1 == rest2, 'builder output differs outside the data holes'
    _HOLES[name] = (b1, holes)
    return _HOLES[name]


def splice(tmpl, values):
    """template bytes with the holes replaced by values (bytes natively, segments symbolically)"""
    from pyvc.sym import mkbytes
    base, holes = tmpl
    parts, pos = [], 0
    for (off, n), v in sorted(zip(holes, values), key=lambda x: x[0][0]):
        parts.append(base[pos:off])
        parts.append(v)
        pos = off + n
    parts.append(base[pos:])
    if all(isinstance(x, bytes) for x in parts):
        return b''.join(parts)
    return mkbytes([x for x in parts if not (isinstance(x, bytes) and x == b'')])


def _delegate_tmpl():
    from tapescript import tools
    return builder_template('delegate_key_lock',
                            lambda pk, a: bytes(tools.make_delegate_key_lock(pk, a.hex())), (32, 1))


def validate_templates_c14(seed, n):
    from nacl.signing import SigningKey
    from tapescript import tools
    rnd = random.Random(seed)
    bad = None
    cnt = 0
    t = _delegate_tmpl()
    for _ in range(n):
        pk = bytes(SigningKey(rnd.randbytes(32)).verify_key)
        a = rnd.randbytes(1)
        cnt += 1
        if bytes(tools.make_delegate_key_lock(pk, a.hex())) != splice(t, [pk, a]) and bad is None:
            bad = ('delegate_key_lock', pk.hex(), a.hex())
        # certificate layout the lock relies on: delegate key (32) + begin (4) + end (4) + can (1) + sig (64)
        begin, end = rnd.randrange(0, 2**31), rnd.randrange(0, 2**31)
        cert = tools.make_delegate_key_cert(rnd.randbytes(32), pk, begin, end, rnd.random() < 0.5).pack()
        cnt += 1
        if (len(cert) != 105 or cert[:32] != pk or int.from_bytes(cert[32:36], 'big') != begin
                or int.from_bytes(cert[36:40], 'big') != end) and bad is None:
            bad = ('delegate_key_cert layout', cert.hex())
    return ob('templates/C14-locks', bad is None, {'failing': repr(bad)}), cnt


def lemma_delegate(e):
    """make_delegate_key_lock: witness `push <sig by delegate> push <cert>`, cert = delegate key (32) +
    begin (4) + end (4) + may-delegate (1) + signature by the root key over those 41 bytes (64)"""
    import z3
    from pyvc.sym import bexpr, mkbytes
    from pyvc import models, crypto
    ip, mk = e.ip, e.mk
    K = mk.bytes('rootkey', 32)
    a, a_b = _byte('allowed')
    d = mk.bytes('delegate', 32)
    bts = mk.bytes('begin', 4)
    ets = mk.bytes('end', 4)
    can = mk.bytes('can', 1)
    csig = mk.bytes('certsig', 64)
    w = mk.bytes('w')
    ip.ctx.assume(z3.And(z3.Length(bexpr(w)) >= 1, z3.Length(bexpr(w)) <= 255))
    e.t = mk.int('t')
    models.hdict_set(ip, e.cache_vals, 'timestamp', e.t)
    lock = splice(_delegate_tmpl(), [K, a_b])
    cert = mkbytes([d, bts, ets, can, csig])
    witness = render([('push', w), ('push', cert)], ip, 'wit')
    v = e.run([witness, lock])
    from pyvc.sym import zint
    now = ip.ctx.ghost.get('now')
    b_ = zint(ip.call(e.vocab.ubig, [bts], {}))
    e_ = zint(ip.call(e.vocab.ubig, [ets], {}))
    t = e.t
    window = z3.And(t >= b_, t < e_, (t - now < 60) if now is not None else z3.BoolVal(True))
    signed = crypto.ed_verify(bexpr(K), bexpr(mkbytes([d, bts, ets, can])), bexpr(csig))
    claim = z3.And(signed, window, e.sig_valid(z3.BV2Int(a), d, w))
    ip.ctx.oblige('delegate/sound', z3.Implies(v, claim), 'lemma')
    ip.ctx.oblige('delegate/complete', z3.Implies(z3.And(claim, e.no_failure()), v), 'lemma')


LEMMAS = {
    'single-sig': lemma_single_sig, 'single-sig2': lemma_single_sig2, 'scripthash': lemma_scripthash,
    'graftroot-key': lemma_graftroot_key, 'graftroot-surrogate': lemma_graftroot_surrogate,
    'taproot-key': lemma_taproot_key, 'taproot-script': lemma_taproot_script, 'merkle1': lemma_merkle1,
    'htlc-sha256': lemma_htlc_sha256, 'htlc-sha256-ts5': lemma_htlc_sha256_5, 'htlc-shake256': lemma_htlc_shake256,
    'ptlc': lemma_ptlc, 'delegate': lemma_delegate,
}


def _run_one(args):
    nme, prop = args
    from pyvc import driver, lemma
    src, reg = driver._init()
    fn = LEMMAS[nme]

    def build(ip, mk):
        fn(Env(ip, mk, src, reg))
    return nme, lemma.run_lemma(src, reg, f'{prop}/{nme}', build, opts={'max_paths': 20000})


def run_lemmas(names, prop, tier='quick'):
    from multiprocessing import get_context
    from pyvc import driver
    driver._init()
    if len(names) > 1:
        with get_context('fork').Pool(min(16, len(names)), maxtasksperchild=1) as pool:
            results = pool.map(_run_one, [(n, prop) for n in names], chunksize=1)
    else:
        results = [_run_one((names[0], prop))]
    obs, summary, und = [], {}, []
    for nme, r in results:
        if os.environ.get('LEMMA_DEBUG'):
            for st in r.get('statuses', []):
                print('   path', st)
        summary[nme] = {'paths': r['paths'], 'obligations': len(r['obligations']), 'time_s': r['time_s'],
                        'undecided': r['undecided'], 'error': r['error']}
        obs.extend(r['obligations'])
        if r['undecided'] or r['error']:
            und.append((f'lemma {prop}/{nme}', r['undecided'] or r['error']))
        elif r['paths'] == 0 or not any(o['name'].endswith(('/sound', '/complete')) or '/starts-' in o['name']
                                        for o in r['obligations']):
            und.append((f'lemma {prop}/{nme}', 'vacuous: no path reached the claim'))
    out = {'obligations': obs, 'summary': summary}
    if und:
        out['undecided'] = und
    return out


def _extra(prop, names, tier, seed):
    tv, cnt = validate_templates(seed, 8 if tier == 'quick' else 300)
    r = run_lemmas(names, prop, tier)
    r['obligations'].insert(0, tv)
    r['bounded'] = {'what': 'builder output == byte template (translation validation of the compile step)',
                    'bound': f'{cnt} builder calls on seeded keys, flags and scripts'}
    return r


def c13_locks(tier='quick', seed=0):
    return _extra('C13', ['single-sig', 'single-sig2', 'scripthash', 'graftroot-key', 'graftroot-surrogate',
                          'taproot-key'], tier, seed)


def c05_locks(tier='quick', seed=0):
    return _extra('C05', ['taproot-key', 'taproot-script'], tier, seed)


def c04_locks(tier='quick', seed=0):
    return _extra('C04', ['merkle1'], tier, seed)


def c15_locks(tier='quick', seed=0):
    tv, cnt = validate_templates_c15(seed, 6 if tier == 'quick' else 200)
    r = run_lemmas(['htlc-sha256', 'htlc-sha256-ts5', 'htlc-shake256', 'ptlc'], 'C15', tier)
    r['obligations'].insert(0, tv)
    r['bounded'] = {'what': 'builder output == byte template (translation validation of the compile step), with the '
                            'clock pinned', 'bound': f'{cnt} builder calls'}
    return r


if __name__ == '__main__':
    import json
    names = sys.argv[1].split(',') if len(sys.argv) > 1 else list(LEMMAS)
    r = run_lemmas(names, 'CXX')
    print(json.dumps(r['summary'], indent=1, default=str))
    for o in r['obligations']:
        if o['status'] != 'discharged':
            print(o['status'], o['name'], o.get('path'), str(o.get('model'))[:300])
    print(r.get('undecided'))

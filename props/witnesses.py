"""Native witnesses of the known findings: each function runs the REAL code of the current tree and
returns True if the recorded defect still reproduces (identified by this specific input / call site)."""
import os
import sys

sys.path.insert(0, os.environ.get('VERIF_REPO', '/repo'))


def _ts():
    import tapescript
    return tapescript


def d1_witness_return_truncates_lock():
    ts = _ts()
    # witness `true true return`; lock `if { } push x<32B> check_sig x00` -> the lock's IF ends the lock
    lock = ts.compile_script('if { } push x' + '11' * 32 + ' check_sig x00')
    return ts.run_auth_scripts([b'\x01\x01\x30', lock]) is True


def d2_loop_leaves_return_pending():
    ts = _ts()
    code = ts.compile_script('true loop { return } true if { push x01 } push x02')
    _, stack, cache = ts.run_script(code)
    return list(stack.deque)[-1:] != [b'\x02']


def d3_random_allocates_before_check():
    import tracemalloc
    ts = _ts()
    code = ts.compile_script('push x04000000 random')      # 64 MiB requested, item limit 1024
    tracemalloc.start()
    try:
        ts.run_script(code)
    except BaseException:
        pass
    peak = tracemalloc.get_traced_memory()[1]
    tracemalloc.stop()
    return peak > 32 * 1024 * 1024


def d4_nested_if_recursion_error():
    ts = _ts()
    depth = 1000
    code = b''
    for _ in range(depth):
        code = b'\x01\x2b' + len(code).to_bytes(2, 'big') + code if len(code) < 65536 else code
    try:
        ts.run_script(code)
    except RecursionError:
        return True
    except BaseException:
        return False
    return False


def d5_returned_is_a_str_key():
    ts = _ts()
    _, _, cache = ts.run_script(b'\x30', {'returned': 1})
    return cache.get('returned') is True


def d6_subtapes_without_plugins():
    ts = _ts()
    calls = []

    def plugin(tape, stack, cache):
        calls.append(1)
    code = ts.compile_script('true if { msg x00 }')
    ts.run_script(code, {'sigfield1': b'a'}, plugins={'signature_extensions': [plugin]})
    return len(calls) == 0


def d7_call_resets_embedder_flags():
    ts = _ts()
    code = ts.compile_script('def 0 { } call d0 push x' + '00' * 32 + ' derive_scalar')
    _, _, cache = ts.run_script(code, additional_flags={1: False})
    return b'x' in cache


def d8_flag_ops_ignore_integer_flags():
    ts = _ts()
    code = ts.compile_script('unset_flag x01 push x' + '00' * 32 + ' derive_scalar')
    _, _, cache = ts.run_script(code)
    return b'x' in cache


def d12_call_does_not_restore_pointer_on_raise():
    ts = _ts()
    src = ('def 0 { if { try { false call d0 } except { } push xaa } else { } push xbb push x00 verify push xcc } '
           'true call d0')
    try:
        _, stack, _ = ts.run_script(ts.compile_script(src))
    except BaseException:
        return False
    return list(stack.deque) == [b'\xbb', b'\xaa', b'\xcc']


def d14_before_lock_negates_slack():
    """make_timestamp_before_lock(ts) accepts t >= ts when t is ahead of the clock by >= ts_threshold"""
    import time
    ts = _ts()
    now = int(time.time())
    lock = ts.make_timestamp_before_lock(now - 1000)
    return ts.run_auth_scripts([lock], {'timestamp': now + 500}) is True


def d17_reset_plugins_skips():
    ts = _ts()
    from tapescript import functions as F
    def p1(*a): pass
    def p2(*a): pass
    scope = 'verif_d17_scope'
    F.add_plugin(scope, p1)
    F.add_plugin(scope, p2)
    F.reset_plugins(scope)
    left = list(F._plugins.get(scope, []))
    F._plugins.pop(scope, None)
    return len(left) != 0


def d20_nonnative_taproot_defines_handle0():
    ts = _ts()
    from tapescript import tools
    from nacl.signing import SigningKey
    pk = bytes(SigningKey(b'\x07' * 32).verify_key)
    sc = tools.Script.from_src('call d0 pop0 true')
    w = tools.make_taproot_witness_scriptspend(pk, sc)
    a = ts.run_auth_scripts([w.bytes, tools.make_taproot_lock(pk, sc).bytes])
    b = ts.run_auth_scripts([w.bytes, tools.make_nonnative_taproot_lock(pk, sc).bytes])
    return a is False and b is True

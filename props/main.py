"""entry point of ./check"""
import argparse
import os
import sys

ROOT = os.path.dirname(os.path.dirname(os.path.abspath(__file__)))
sys.path.insert(0, ROOT)


def main():
    ap = argparse.ArgumentParser()
    ap.add_argument('prop')
    ap.add_argument('--tier', default=os.environ.get('VERIF_TIER', 'quick'))
    ap.add_argument('--replay')
    a = ap.parse_args()
    seed = int(os.environ.get('VERIF_SEED', '0') or 0)
    os.environ['VERIF_TIER_EFFECTIVE'] = a.tier if a.tier in ('quick', 'thorough') else 'quick'
    if a.replay:
        from pyvc import replay
        sys.exit(replay.replay_file(a.replay if os.path.isabs(a.replay) else os.path.join(ROOT, a.replay)))
    from props.registry import PROPS
    if a.prop not in PROPS:
        print(f'property {a.prop} has no check (see MANIFEST.json not_applicable)')
        sys.exit(3)
    from pyvc import driver
    try:
        rc = driver.check_property(a.prop, a.tier if a.tier in ('quick', 'thorough') else 'quick', seed, PROPS[a.prop])
    except BaseException as ex:  # noqa: BLE001
        import traceback
        traceback.print_exc()
        print(f'CHECKER-FAULT {type(ex).__name__}: {ex}')
        rc = 3
    sys.exit(rc)


if __name__ == '__main__':
    main()

"""C16: the timestamp lock builders accept exactly their documented window (lemma mode)."""
import os
import random
import sys

ROOT = os.path.dirname(os.path.dirname(os.path.abspath(__file__)))
sys.path.insert(0, ROOT)
sys.path.insert(0, os.environ.get('VERIF_REPO', '/repo'))
from props import templates as T   # noqa: E402
from props.lemutil import push_var, verdict_bool   # noqa: E402


def _ob(name, ok, info=None, backend='native'):
    return {'name': name, 'kind': 'template', 'status': 'discharged' if ok else 'failed', 'backend': backend,
            'time_s': 0.0, 'path': '', 'info': info or {}, 'inputs': None}


def validate_templates(seed, n):
    """translation validation (bounded): real builder output == template, on seeded samples"""
    import tapescript as ts
    from tapescript.functions import int_to_bytes
    rnd = random.Random(seed)
    vals = [0, 1, 127, 128, 255, 256, 32767, 32768, 2**31 - 1, 2**31, 2**32, 2**63 - 1, 2**63, 2**64] + \
        [rnd.getrandbits(rnd.randrange(1, 70)) for _ in range(n)]
    bad = None
    cnt = 0
    for v in vals:
        for verify in (False, True):
            cnt += 3
            e = int_to_bytes(v)
            if ts.make_timestamp_after_lock(v, verify).bytes != T.t_timestamp_after(e, verify) and bad is None:
                bad = ('after', v, verify)
            if ts.make_timestamp_before_lock(v, verify).bytes != T.t_timestamp_before(e, verify) and bad is None:
                bad = ('before', v, verify)
            w = vals[(vals.index(v) + 3) % len(vals)]
            if ts.make_timestamp_between_lock(v, w, verify).bytes != T.t_timestamp_between(e, int_to_bytes(w), verify) \
                    and bad is None:
                bad = ('between', v, w, verify)
    return _ob('templates/C16/timestamp-locks', bad is None, {'failing': repr(bad)}), cnt


def c16_locks(tier='quick', seed=0):
    import z3
    from pyvc import driver, lemma
    from pyvc.sym import zint, mkbytes, sym_bytes
    src, reg = driver._init()
    F = src.live['functions']
    obs = []
    tv, cnt = validate_templates(seed, 30 if tier == 'quick' else 2000)
    obs.append(tv)

    def mk_lemma(kind):
        def build(ip, mk):
            ctx = ip.ctx
            ts = mk.int('ts', lo=0)
            t = mk.int('t')
            e = ip.call(F.int_to_bytes, [ts], {})
            ctx.assume(z3.Length(e.e) <= 255)        # timestamps below 2**2032
            enc = push_var(ip, e, 'ts')
            if kind == 'after':
                lock = mkbytes([enc, T.op('OP_CHECK_TIMESTAMP')])
            elif kind == 'before':
                lock = mkbytes([enc, T.op('OP_CHECK_TIMESTAMP'), T.op('OP_NOT')])
            else:
                ts2 = mk.int('ts_end', lo=0)
                e2 = ip.call(F.int_to_bytes, [ts2], {})
                ctx.assume(z3.Length(e2.e) <= 255)
                enc2 = push_var(ip, e2, 'ts_end')
                lock = mkbytes([enc, T.op('OP_CHECK_TIMESTAMP_VERIFY'), enc2, T.op('OP_CHECK_TIMESTAMP'),
                                T.op('OP_NOT')])
            verdict = verdict_bool(ip, ip.call(F.run_auth_scripts, [[lock], {'timestamp': t}], {}))
            now = ctx.ghost.get('now')
            slack = (t - now < 60) if now is not None else z3.BoolVal(True)     # default ts_threshold
            if kind == 'after':
                ctx.oblige('after-lock-window', verdict == z3.And(t >= ts, slack), 'lemma')
            elif kind == 'before':
                # exact statement of the property (t < ts at every value): known finding D14
                ctx.oblige('before-lock-window', verdict == (t < ts), 'lemma')
                # ... and on the complement of the recorded region (timestamps not ahead of the clock by
                # the slack threshold or more) the lock is exact
                ctx.oblige('before-lock-window-within-slack', z3.Implies(slack, verdict == (t < ts)), 'lemma')
            else:
                ctx.oblige('between-lock-window', verdict == z3.And(t >= ts, t < ts2, slack), 'lemma')
        return build
    summary = {}
    for kind in ('after', 'before', 'between'):
        r = lemma.run_lemma(src, reg, f'C16/{kind}-lock', mk_lemma(kind))
        summary[kind] = {'paths': r['paths'], 'obligations': len(r['obligations']), 'time_s': r['time_s'],
                         'undecided': r['undecided'], 'error': r['error']}
        obs.extend(o for o in r['obligations'] if '-lock-window' in o['name'])
        if r['undecided'] or r['error']:
            return {'obligations': obs, 'undecided': [(f'lemma C16/{kind}', r['undecided'] or r['error'])],
                    'summary': summary}
    return {'obligations': obs, 'summary': summary,
            'bounded': {'what': 'builder output == byte template (translation validation of the compile step)',
                        'bound': f'{cnt} builder calls on boundary and seeded timestamps'}}


if __name__ == '__main__':
    import json
    print(json.dumps(c16_locks(), indent=1, default=str)[:6000])

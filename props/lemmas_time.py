def c16_locks(tier='quick', seed=0):
    return {}

"""C03: OP_CHECK_MULTISIG is exact for m <= n <= N (lemma mode: the op's real body is executed).

Decomposition (every step is a discharged obligation):
  (1) OP_CHECK_SIG's body refines spec_check_sig                       -- C02 cone (verify_function)
  (2) C03/abs-sound: whenever spec_check_sig returns normally on a plugin-free tape, abs_check_sig
      (contracts/functions_ops2.py) has the same effect: the result is the truth value of
      sig_valid(cache, allowed, key, sig), a function of those four only; tape pointer + 1; the two
      operands replaced by the result; cache unchanged.  sig_valid is transparent here.
  (3) C03/m<m>n<n>: the body of OP_CHECK_MULTISIG run with OP_CHECK_SIG applied through
      abs_check_sig, sig_valid OPAQUE (an uninterpreted predicate): the lemma holds for every
      interpretation of it, in particular for the one of (2).
"""
import itertools
import os
import sys

ROOT = os.path.dirname(os.path.dirname(os.path.abspath(__file__)))
sys.path.insert(0, ROOT)
sys.path.insert(0, os.environ.get('VERIF_REPO', '/repo'))


_JOBS = None
_BUDGET = 600


def _run_job(k):
    from pyvc import lemma
    src, reg, jobs = _JOBS
    name, b = jobs[k]
    return k, lemma.run_lemma(src, reg, name, b, opts={'max_paths': 40000, 'budget_s': _BUDGET})


def c03_multisig(tier='quick', seed=0):
    import z3
    from pyvc import driver, lemma, models
    from pyvc.sym import zint, mkbytes, sym_bytes, bexpr, zbool
    from pyvc.interp import PyRaise
    from pyvc.heap import snapshot, same_value
    src, reg = driver._init()
    F = src.live['functions']
    C = src.live['classes']
    import contracts.functions_ops2 as O2
    import contracts.functions_ops as O1
    sig_valid = reg.side_ast(O2.sig_valid)
    abs_check_sig = reg.side_ast(O2.abs_check_sig)
    spec_check_sig = reg.side_ast(O2.spec_check_sig)
    N = 3 if tier == 'quick' else 4
    shapes = [(m, n) for n in range(1, N + 1) for m in range(0, n + 1)]
    if tier != 'quick':
        shapes += [(2, 5), (3, 5)]
    shapes += [(2, 1), (3, 2)]            # more signatures than keys: never true
    if os.environ.get('C03_SHAPES'):      # developer aid
        shapes = [tuple(int(c) for c in x.split(',')) for x in os.environ['C03_SHAPES'].split(';') if x]

    def assume_all(ip, f, args):
        for _, c in ip.clauses(ip.call_ast(reg.side_ast(f), args, {})):
            ip.ctx.assume(ip.cval(c))

    # ---- (2) abs-sound
    def build_abs_sound(ip, mk):
        ctx = ip.ctx
        allowed = z3.BitVec('allowed', 8)
        tape = ip.call(C.Tape, [mkbytes([sym_bytes(z3.Unit(allowed), 1)])], {})      # plugin-free tape
        stack = mk.stack('stack')
        cache = mk.dict('cache')
        import contracts.common as CM
        assume_all(ip, CM.stack_ok, [stack])
        assume_all(ip, O1.sigfields_ok, [cache])
        ctx.assume(ip.truth(ip.call_ast(reg.side_ast(O1.clean), [cache], {})))
        st2 = snapshot({'tape': tape, 'stack': stack, 'cache': cache})
        try:
            ip.call_ast(spec_check_sig, [tape, stack, cache], {})
        except PyRaise:
            ctx.oblige('abs-sound/raise-allowed', True, 'lemma')      # abs_check_sig may fail whenever it likes
            return
        # the abstract contract on the copy, with its failure choice resolved to "does not fail"
        ctx.assume(z3.Not(z3.Bool('unk_check_sig_fails#0')))
        try:
            ip.call_ast(abs_check_sig, [st2['tape'], st2['stack'], st2['cache']], {})
        except PyRaise as r:
            ctx.oblige(f'abs-sound/abs-raises-{r.cls.__name__}', False, 'lemma')
            return
        for nme, a, b in (('tape', tape, st2['tape']), ('stack', stack, st2['stack']), ('cache', cache, st2['cache'])):
            out = []
            same_value(ip, a, b, nme, out)
            for label, c in out:
                ctx.oblige(f'abs-sound/{label}', c, 'lemma')

    # ---- (3) the matching loop
    def mk_lemma(m, n):
        def build(ip, mk):
            ctx = ip.ctx
            ctx.ghost['opaque_defs'] = {'sig_valid'}
            ctx.ghost['spec_override'] = {'functions.OP_CHECK_SIG': abs_check_sig}
            allowed = z3.BitVec('allowed', 8)
            data = mkbytes([sym_bytes(z3.Unit(allowed), 1), bytes([m]), bytes([n])])
            tape = ip.call(C.Tape, [data], {})
            stack = ip.call(C.Stack, [], {})
            cache = mk.dict('cache')
            assume_all(ip, O1.sigfields_ok, [cache])
            ctx.assume(ip.truth(ip.call_ast(reg.side_ast(O1.clean), [cache], {})))     # no RETURN pending (C01)
            sigs = [mk.bytes(f'sig{i}') for i in range(m)]
            keys = [mk.bytes(f'key{j}') for j in range(n)]
            for x in sigs + keys:
                ctx.assume(z3.Length(bexpr(x)) <= 1024)
            # the witness pushes the signatures, the lock pushes the keys: keys end up on top.
            # OP_CHECK_MULTISIG pulls n keys (top first), then m signatures.
            for x in list(reversed(sigs)) + list(reversed(keys)):
                models.zl_append(ip, stack.f['deque'], x)
            al = z3.BV2Int(allowed)
            cache0 = snapshot({'cache': cache})['cache']
            from pyvc import vocab
            sf0 = ip.call(vocab.restrict_str, [cache0, O2.SIGFIELDS], {})
            V = [[zbool(ip.truth(ip.call(vocab.defined, ['sig_valid', sig_valid, sf0, al, keys[j], sigs[i]], {})))
                  for j in range(n)] for i in range(m)]
            try:
                ip.call(F.OP_CHECK_MULTISIG, [tape, stack, cache], {})
                raised = None
            except PyRaise as r:
                raised = r.cls.__name__
            if raised is not None:
                ctx.oblige('error-is-not-true', True, 'lemma', info={'raised': raised})
                return
            inj = [z3.And(*[V[i][f[i]] for i in range(m)]) if m else z3.BoolVal(True)
                   for f in itertools.permutations(range(n), m)]
            matching = z3.Or(*inj) if inj else z3.BoolVal(False)
            sig_distinct = z3.And(*[bexpr(sigs[a]) != bexpr(sigs[b]) for a in range(m) for b in range(a + 1, m)]) \
                if m > 1 else z3.BoolVal(True)
            key_distinct = z3.And(*[bexpr(keys[a]) != bexpr(keys[b]) for a in range(n) for b in range(a + 1, n)]) \
                if n > 1 else z3.BoolVal(True)
            # I-SIG-UNIQ: a signature verifies under at most one public key value
            uniq = z3.And(*[z3.Implies(z3.And(V[i][a], V[i][b]), bexpr(keys[a]) == bexpr(keys[b]))
                            for i in range(m) for a in range(n) for b in range(a + 1, n)]) if m and n > 1 \
                else z3.BoolVal(True)
            dq = stack.f['deque']
            ctx.oblige('one-result', zint(dq.ln) == 1, 'lemma')
            top = bexpr(ip.zl_get(dq, zint(dq.ln) - 1) if dq.items is None else dq.items[-1])
            is_true = top == z3.Unit(z3.BitVecVal(0xff, 8))
            is_false = top == z3.Unit(z3.BitVecVal(0, 8))
            ctx.oblige('boolean-result', z3.Or(is_true, is_false), 'lemma')
            # never true without m signatures, pairwise different, valid under m different listed keys
            ctx.oblige('true-only-with-matching', z3.Implies(is_true, z3.And(matching, sig_distinct)), 'lemma')
            # exact when the listed keys are pairwise different (make_multisig_lock's own requirement for
            # the quorum) and under I-SIG-UNIQ
            ctx.oblige('exact-for-distinct-keys',
                       z3.Implies(z3.And(key_distinct, uniq), is_true == matching), 'lemma')
        return build
    obs, summary, und = [], {}, []
    jobs = [('C03/abs-sound', build_abs_sound)] + [(f'C03/m{m}n{n}', mk_lemma(m, n)) for m, n in shapes]
    global _JOBS, _BUDGET
    _JOBS = (src, reg, jobs)
    _BUDGET = 600 if tier == 'quick' else 3000
    from multiprocessing import get_context
    # largest shapes first; forked workers inherit the job table (closures are not pickled)
    order = sorted(range(len(jobs)), key=lambda k: -k)
    with get_context('fork').Pool(min(16, len(jobs)), maxtasksperchild=1) as pool:
        results = dict(pool.map(_run_job, order, chunksize=1))
    for k, (name, b) in enumerate(jobs):
        r = results[k]
        summary[name] = {'paths': r['paths'], 'obligations': len(r['obligations']), 'time_s': r['time_s'],
                         'undecided': r['undecided'], 'error': r['error']}
        # every obligation counts: the preconditions of the contracts applied inside a lemma justify
        # their application
        obs.extend(r['obligations'])
        if r['undecided'] or r['error']:
            und.append((f'lemma {name}', r['undecided'] or r['error']))
        elif r['paths'] == 0 or not r['obligations']:
            und.append((f'lemma {name}', 'vacuous: no path / no obligation'))
    if any(o['status'] == 'failed' for o in obs):
        # a refuted lemma: look for a concrete failing input on the REAL code (bounded native search), so
        # that the violation carries an input that replays
        cex = native_search()
        if cex is not None:
            obs.append({'name': 'lemma/C03/native-counterexample', 'kind': 'lemma', 'status': 'failed',
                        'backend': 'native(search guided by the refuted lemma)', 'time_s': 0.0, 'path': '', 'info': cex,
                        'inputs': None})
    out = {'obligations': obs, 'summary': summary}
    if und:
        out['undecided'] = und
    return out


def native_search():
    """real OP_CHECK_MULTISIG (through run_auth_scripts) against the property's own predicate, over 3 real
    key pairs, signatures with flag 00 / 01 by each, one junk signature, all key lists of 1..3 distinct keys
    and all signature lists of 1..n entries: returns the first disagreement or None"""
    import itertools
    from nacl.signing import SigningKey
    import tapescript
    from tapescript import tools
    import tapescript.functions as F
    sf = {'sigfield1': b'abc', 'sigfield2': b'de'}
    seeds = [bytes([i + 1]) * 32 for i in range(3)]
    pks = [bytes(SigningKey(s_).verify_key) for s_ in seeds]
    sigs = {}
    for i, s_ in enumerate(seeds):
        for fl in ('00', '01'):
            w = tools.make_single_sig_witness(s_, sf, fl)
            sigs[(i, fl)] = bytes(w)[2:] if bytes(w)[0] == F.opcodes_inverse['OP_PUSH1'][0] else bytes(w)[1:]
    sigs[('junk', '00')] = b'\x07' * 64
    names = list(sigs)
    for n in (1, 2, 3):
        for keyidx in itertools.permutations(range(3), n):
            for m in range(1, n + 1):
                for chosen in itertools.product(names, repeat=m):
                    lock = tools.Script.from_src(' '.join(f'push x{pks[k].hex()}' for k in keyidx)
                                                 + f' check_multisig x01 d{m} d{n}')
                    wit = tools.Script.from_src(' '.join(f'push x{sigs[c].hex()}' for c in chosen))
                    got = F.run_auth_scripts([bytes(wit), bytes(lock)], dict(sf))
                    signers = [c[0] for c in chosen]
                    want = ('junk' not in signers and len(set(signers)) == m and all(s_ in keyidx for s_ in signers)
                            and len(set(chosen)) == m)
                    if got is not want:
                        return {'keys': [pks[k].hex() for k in keyidx], 'm': m, 'n': n, 'allowed_flags': '01',
                                'signatures': [{'signer': c[0], 'flag': c[1], 'sig': sigs[c].hex()} for c in chosen],
                                'sigfields': {k: v.hex() for k, v in sf.items()}, 'verdict': got, 'expected': want}
    return None


if __name__ == '__main__':
    import json
    r = c03_multisig(sys.argv[1] if len(sys.argv) > 1 else 'quick')
    print(json.dumps(r['summary'], indent=1, default=str))
    print([o for o in r['obligations'] if o['status'] != 'discharged'][:5], r.get('undecided'))

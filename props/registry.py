"""property -> cone of functions under contract, selection of the obligations that belong to the
property, extra lemma / bounded checks, trusted base and assumptions."""
import os
import sys

ROOT = os.path.dirname(os.path.dirname(os.path.abspath(__file__)))
sys.path.insert(0, ROOT)

CLASSES = ['classes.Stack.__init__', 'classes.Stack.put', 'classes.Stack.get', 'classes.Stack.peek',
           'classes.Stack.__len__', 'classes.Stack.empty', 'classes.Tape.read', 'classes.Tape.move_pointer',
           'classes.Tape.has_terminated', 'classes.Tape.reset_pointer']
ERRORS = ['errors.sert', 'errors.vert', 'errors.tert', 'errors.yert']
CODECS = ['functions.bytes_to_int', 'functions.int_to_bytes', 'functions.uint_to_bytes', 'functions.bytes_to_bool',
          'functions.bytes_to_float', 'functions.float_to_bytes', 'functions.not_bytes', 'functions.bytes_are_same']
RUN = ['functions.run_tape', 'functions.run_script', 'functions.run_auth_scripts', 'functions.run_plugins',
       'functions.run_sig_extensions']
HELPERS = ['functions.clamp_scalar', 'functions.H_big', 'functions.H_small', 'functions.derive_key_from_seed',
           'functions.derive_point_from_scalar', 'functions.aggregate_points', 'functions.aggregate_scalars']
CONTROL = ['functions.OP_RETURN', 'functions.OP_IF', 'functions.OP_IF_ELSE', 'functions.OP_TRY_EXCEPT',
           'functions.OP_LOOP', 'functions.OP_CALL', 'functions.OP_EVAL', 'functions.OP_DEF',
           'functions.OP_MERKLEVAL', 'functions.OP_TAPROOT']
SIG = ['functions.OP_GET_MESSAGE', 'functions.OP_CHECK_SIG', 'functions.OP_CHECK_SIG_VERIFY', 'functions.OP_SIGN',
       'functions.OP_SIGN_STACK', 'functions.OP_CHECK_SIG_STACK', 'functions.OP_VERIFY']
TIME = ['functions.OP_CHECK_TIMESTAMP', 'functions.OP_CHECK_TIMESTAMP_VERIFY', 'functions.OP_CHECK_EPOCH',
        'functions.OP_CHECK_EPOCH_VERIFY', 'functions.OP_NOT', 'functions.not_bytes']


def all_ops():
    """every function present in the live opcode tables of the current tree"""
    from pyvc import loader
    F = loader.source().live['functions']
    names = {f.__name__ for _, f in F.opcodes.values()} | {f.__name__ for _, f in F.nopcodes.values()}
    return sorted('functions.' + n for n in names)


TRUSTED_COMMON = [
    'z3 5.1.0 (cvc5 1.0.3 for z3-unknowns)',
    'pyvc: the VC generator itself (encoding of Python semantics, DESIGN.md 2.4); exercised by seeded mutants',
    'CPython 3.12 for every all-concrete operation (concrete-first)',
    'libsodium / PyNaCl entry points: assumed contracts (argument checks, output lengths) in pyvc/crypto.py',
    'hashlib sha256 / sha512 / shake_256: uninterpreted functions with output lengths',
    'struct pack/unpack of float32, float arithmetic: uninterpreted (A-F32)',
]
ASSUME_COMMON = [
    'machine arithmetic: none (python ints are mathematical integers in the encoding)',
    'asserts are not stripped (python -O not used); default warning filters; no threads / signals',
    'valid embedder input: sigfield1..8 are bytes when present; plugin scopes hold lists; integer flags 0..10 hold '
    'booleans; cache values are bytes / int / str / float / bool / None / list or tuple of bytes / opaque objects',
    'A-PLUGIN: installed plugins keep the VM invariants (contract <PLUGIN>); A-EMBED: contract-object methods do '
    'not touch VM state',
    'heap invariant of definition tapes (introduced by OP_DEF/post, preserved by the frame clauses of every op, '
    'assumed where OP_CALL loads a definition): same configuration as the calling tape',
    'the induction from per-instruction contracts to whole programs (dispatch through run_tape, recursion '
    'op -> run_tape -> op) is the standard modular argument, not itself a machine-checked object',
]

PROPS = {}
NEVER_RETURNS = ('functions.OP_SET_FLAG',)     # known finding D8: the instruction can only raise on this tree

PROPS['C10'] = {
    'functions': CODECS + ERRORS,
    'select': [r'^functions\.(bytes_to_int|int_to_bytes|uint_to_bytes|bytes_to_bool|bytes_to_float|float_to_bytes)/',
               r'^errors\.'],
    'trusted_base': TRUSTED_COMMON + ['A-LOG2: floor(log2(n)) computed through a double is never below bitlen(n)-1 '
                                      'and over by at most one (checked natively by props/bounded.py)'],
    'assumptions': ASSUME_COMMON + ['float32 bit-exact round trip is struct\'s (assumed; bounded stand-in enumerates '
                                    'bit patterns per exponent)'],
    'extra': ['props.bounded:c10_native'],
    'explanation': 'integer codec: body of int_to_bytes / bytes_to_int verified against the two\'s-complement spec for '
                   'all integers (pow2 / bitlen laws instantiated per term); float wrappers: type / length checks',
}

PROPS['C16'] = {
    'functions': TIME + CLASSES + ERRORS + ['functions.OP_VERIFY', 'functions.bytes_to_bool'],
    'select': [r'^functions\.OP_CHECK_(TIMESTAMP|EPOCH)', r'^functions\.(OP_NOT|not_bytes)/'],
    'trusted_base': TRUSTED_COMMON + ['time(): ghost integer `now`'],
    'assumptions': ASSUME_COMMON,
    'extra': ['props.lemmas_time:c16_locks'],
    'explanation': 'the four time instructions refine the window formulas of the property for all (t, now, c, '
                   'threshold) and constraint items of any length; lock builders: lemma over the compiled bytes',
}

PROPS['C07'] = {
    'functions': sorted(set(CLASSES + ERRORS + RUN + all_ops())),
    'select': [r'stack\.(count|maxlen|item-size)', r'tape\.pointer', r'pointer\.monotone', r'below-maxlen', r'/alloc/',
               r'/variant', r'size>=0', r'n>=0', r'charged', r'callstack', r'/count', r'^classes\.', r'result\.size',
               r'(OP_CALL|OP_EVAL|OP_LOOP|OP_RANDOM)/refine/', r'limits', r'stack_ok'],
    'never_returns': NEVER_RETURNS,
    'trusted_base': TRUSTED_COMMON,
    'assumptions': ASSUME_COMMON + ['interpreter resources (Python recursion depth, allocator) are not modelled: the '
                                    'allocation ghost bounds the size argument of allocating primitives; see known '
                                    'finding D4 for nesting depth'],
    'extra': ['props.bounded:c07_depth_note'],
    'explanation': 'stack / tape representation invariants are pre- and postconditions of every instruction and the '
                   'loop invariant of run_tape; every loop has a variant; every raw deque.append carries len < maxlen',
}

PROPS['C08'] = {
    'never_returns': NEVER_RETURNS,
    'functions': sorted(set(RUN + all_ops() + CLASSES)),
    'select': [r'ks-frame', r'run_script/post/cache_ok', r'item-is-bytes', r'^classes\.Stack\.put/refine',
               r'^bounded/C08/'],
    'trusted_base': TRUSTED_COMMON,
    'assumptions': ASSUME_COMMON + ['as the property says: no plugin or contract installed (the frame clause is '
                                    'conditional on no_plugins_at_all)',
                                    'the proved frame clause is about (re)binding of str keys; that no instruction '
                                    'mutates a *mutable* value (bytearray / list) held under a str key in place is '
                                    'outside the sidecar\'s input assumption (sigfields are bytes) and is covered only '
                                    'by the bounded stand-in c08_mutable_values, labelled bounded'],
    'extra': ['props.bounded:c08_mutable_values'],
    'explanation': 'frame clause on the str key space of the cache for every instruction, on normal and exceptional '
                   'exits; the key kind of every store / delete is decided from the expression',
}

PROPS['C09'] = {
    'never_returns': NEVER_RETURNS,
    'functions': sorted(set(RUN + all_ops())),
    'select': [r'site\[', r'flags-frame', r'plugins-once', r'config\.', r'(OP_SET_FLAG|OP_UNSET_FLAG)/', r'registry\.',
               r'flag\[.*\]\.present', r'flag\d+\.bool', r'refine/args\[run_tape', r'plugins\.'],
    'trusted_base': TRUSTED_COMMON + ['set_tape_flags: assumed contract (dict iteration), bounded stand-in'],
    'assumptions': ASSUME_COMMON,
    'extra': ['props.bounded:c09_set_tape_flags'],
    'explanation': 'call-site assertion at every run_tape call inside an instruction: the sub-tape\'s effective flags, '
                   'plugins, contracts and call-stack limit equal the calling tape\'s; flag frame for every other op',
}

PROPS['C01'] = {
    'never_returns': NEVER_RETURNS,
    'functions': sorted(set(CLASSES + ERRORS + RUN + all_ops())),
    'select': [r'returned-protocol', r'/clean', r'terminated', r'clean-on-raise', r'^functions\.run_auth_scripts/',
               r'returns-to-caller', r'never-raises', r'pre\[run_tape', r'pre\[<OPC>', r'^functions\.run_tape/',
               r'(OP_RETURN|OP_IF|OP_IF_ELSE|OP_TRY_EXCEPT|OP_LOOP|OP_CALL|OP_EVAL)/refine/'],
    'trusted_base': TRUSTED_COMMON,
    'assumptions': ASSUME_COMMON + ['lists of 1..4 scripts (the property\'s own bound) -- cases, each for all script '
                                    'bytes; excluded initial cache value: an embedder-supplied \'returned\' key (D5)'],
    'explanation': 'ghost predicate clean(cache): required by every instruction and by run_tape, re-established or '
                   'tape-terminated after every instruction (returned-protocol); run_auth_scripts must establish it '
                   'at each run_tape call site',
}

PROPS['C06'] = {
    'never_returns': NEVER_RETURNS,
    'functions': sorted(set(CLASSES + ERRORS + CODECS + HELPERS + RUN + all_ops())),
    'select': [r'/refine/', r'def-pointer-restored', r'returns-to-caller', r'/operand', r'/post/(stored|data|shares)',
               r'/loop\d+/inv', r'^classes\.', r'^functions\.(bytes_|int_to|uint_|float_|not_bytes|clamp|H_|derive|aggregate)'],
    'reject': [r'(OP_SET_FLAG|OP_UNSET_FLAG)/refine/'],
    'trusted_base': TRUSTED_COMMON + ['xor / or_bytes / and_bytes: assumed byte-wise contracts (bounded stand-in)'],
    'assumptions': ASSUME_COMMON + ['on exceptional exits the spec fixes the exception class; the state after a failed '
                                    'instruction is constrained by the common op contract only',
                                    'float and UTF-8 instructions: structural only (operand count, order, checks)',
                                    'tier-A instructions (common op contract only, no functional spec): OP_ADD_POINTS, '
                                    'OP_ADD/SUBTRACT_SCALARS, OP_SUBTRACT_POINTS, OP_ADD/SUBTRACT_FLOATS, OP_GET_VALUE, '
                                    'OP_INVOKE, OP_CHECK_TRANSFER, OP_CHECK_TEMPLATE(_VERIFY), OP_CHECK_MULTISIG(_VERIFY), '
                                    'OP_MAKE_ADAPTER_SIG_PRIVATE'],
    'extra': ['props.bounded:c06_bytewise'],
    'explanation': 'body-refines-spec for every instruction with a documentation-derived spec: same stack, cache, tape '
                   'and return-or-raise on every path, for all operands',
}

PROPS['C02'] = {
    'functions': SIG + ['functions.run_sig_extensions', 'functions.run_plugins'] + CLASSES + ERRORS,
    'select': [r'^functions\.(OP_GET_MESSAGE|OP_CHECK_SIG|OP_CHECK_SIG_VERIFY|OP_SIGN|OP_SIGN_STACK|OP_CHECK_SIG_STACK)/'],
    'trusted_base': TRUSTED_COMMON + ['E4: VerifyKey.verify / SigningKey.sign as the uninterpreted ed_verify / ed_sign'],
    'assumptions': ASSUME_COMMON + ['negative clauses (any change to key / signature / covered field makes the check '
                                    'fail) hold under I-SIG / I-SUF only: probabilistic, not decided here'],
    'extra': ['props.lemmas_sig:c02_lemmas'],
    'explanation': 'all 256 x 256 (flag, allowed) pairs are covered symbolically (8-bit vectors); msg(cache, f) is the '
                   'property\'s own message function',
}

PROPS['C20'] = {
    'functions': ['functions.NOP', 'functions.run_tape', 'classes.Tape.read', 'classes.Stack.get'] + ERRORS,
    'select': [r'^functions\.NOP/', r'^functions\.run_tape/pre\[<OPC>', r'^functions\.run_tape/refine'],
    'trusted_base': TRUSTED_COMMON,
    'assumptions': ASSUME_COMMON + ['a fork op installed by an embedder refines NOP (it only inspects and removes '
                                    '`count` items and may raise): checked for the documented example family',
                                    'step (c) of the compatibility argument is a meta-argument over the contracts'],
    'extra': ['props.tables:c20_tables'],
    'explanation': 'NOP body refines "read one signed count byte, remove that many items, nothing else"; table '
                   'partition and compile / decompile handlers checked on the live tables',
}


PROPS['C19'] = {
    'functions': ['functions.add_plugin', 'functions.remove_plugin', 'functions.reset_plugins',
                  'functions.add_signature_extension', 'functions.remove_signature_extension',
                  'functions.reset_signature_extensions', 'functions.add_contract', 'functions.remove_contract',
                  'functions.run_script', 'functions.run_auth_scripts', 'functions.run_plugins'] + ERRORS,
    'select': [r'^functions\.(add_|remove_|reset_)', r'registry\.', r'fresh\.', r'/frame/', r'none-installed',
               r'run_plugins/'],
    'trusted_base': TRUSTED_COMMON + ['_check_contract: assumed (opaque isinstance against Protocol classes)'],
    'assumptions': ASSUME_COMMON + ['plugin lists are duplicate-free (established by add_plugin, precondition of '
                                    'remove_plugin); registry values are lists (typed container)',
                                    'aliases, contract interfaces and compile-history independence: bounded stand-in '
                                    '(string manipulation on symbolic str / Protocol metaclasses are outside the '
                                    'executor), labelled'],
    'extra': ['props.bounded:c19_history'],
    'explanation': 'whole-view postconditions (what was added / removed, every other entry and scope unchanged) for '
                   'the plugin and contract registries, with set semantics stated by quantifiers over the lists; '
                   'run_script builds tape.contracts / tape.plugins from exactly the registry contents overlaid with '
                   'its arguments in fresh dicts, and leaves the caller\'s dictionaries unmodified (frame)',
}


PROPS['C12'] = {
    'functions': ['parsing.decompile_script', 'classes.Tape.read', 'classes.Tape.has_terminated',
                  'functions.bytes_to_int'] + ERRORS,
    'select': [r'^parsing\.decompile_script/', r'^classes\.Tape\.(read|has_terminated)/', r'^functions\.bytes_to_int/'],
    'trusted_base': TRUSTED_COMMON + ['text of the listing: str.join / bytes.hex / f-strings are uninterpreted (only '
                                      '|hex(b)| = 2|b| is stated); no control flow of decompile_script depends on them'],
    'assumptions': ASSUME_COMMON + ['a decompiler handler installed with add_opcode_parsing_handlers is arbitrary embedder '
                                    'code: assumed to return (A-EMBED); it receives the tape and may move its pointer',
                                    'round trip compile(decompile(b)) == b and "the listing names exactly the instructions '
                                    'present": bounded stand-in against a reference encoder / lister (the compiler is '
                                    'string code outside the solvers\' reach), labelled bounded',
                                    'termination of the Python interpreter\'s own recursion (depth <= len(script)/4 '
                                    'frames) is not modelled'],
    'extra': ['props.bounded:c12_roundtrip'],
    'explanation': 'decompile_script: every Tape.read call site proves size >= 0 (with Tape.read\'s postcondition '
                   '"pointer never decreases": never reads backwards); the loop has the variant len(data) - pointer; '
                   'every recursive call proves the measure len(script) strictly decreases; for all byte strings',
}


PROPS['C03'] = {
    'functions': ['functions.OP_CHECK_MULTISIG', 'functions.OP_CHECK_MULTISIG_VERIFY', 'functions.OP_CHECK_SIG',
                  'functions.OP_VERIFY', 'functions.bytes_to_bool', 'functions.run_sig_extensions',
                  'functions.run_plugins'] + CLASSES + ERRORS,
    'select': [r'^functions\.OP_CHECK_MULTISIG', r'^functions\.OP_CHECK_SIG/', r'^lemma/C03/'],
    'trusted_base': TRUSTED_COMMON + ['E4: Ed25519 verification is an uninterpreted predicate of (key, message, signature)'],
    'assumptions': ASSUME_COMMON + [
        'exactness ("true exactly when ...") is proved for m, n <= 3 (quick) / n <= 4 plus (2,5), (3,5) (thorough) by '
        'executing the real loop; the safety half of the contract (limits, frames, termination) holds for all (m, n)',
        'I-SIG-UNIQ (completeness direction only): a signature verifies under at most one public key value; and the '
        'listed keys are pairwise different (make_multisig_lock requires quorum <= number of unique keys). The soundness '
        'direction (true only with m pairwise different signatures valid under m different listed positions) is '
        'unconditional',
        'no signature-extension plugin is installed (a plugin may change the cache between two checks)',
        'order independence follows from exactness: the matching predicate is symmetric in keys and in signatures',
    ],
    'extra': ['props.lemmas_multisig:c03_multisig'],
    'explanation': 'three discharged steps: OP_CHECK_SIG body refines its C02 spec; the spec has the effect of the '
                   'abstract contract abs_check_sig whenever it returns (lemma C03/abs-sound); the real body of '
                   'OP_CHECK_MULTISIG, run over the abstract contract with sig_valid an uninterpreted predicate, yields '
                   'true only if an injective matching of pairwise different signatures to listed keys exists, and '
                   'exactly then for pairwise different keys',
}


LOCK_VM = ['functions.run_auth_scripts', 'functions.run_script', 'functions.run_tape', 'functions.OP_IF_ELSE',
           'functions.OP_EVAL', 'functions.OP_DUP', 'functions.OP_SWAP', 'functions.OP_SHAKE256', 'functions.OP_SHA256',
           'functions.OP_EQUAL_VERIFY', 'functions.OP_CHECK_SIG', 'functions.OP_CHECK_SIG_STACK', 'functions.OP_VERIFY',
           'functions.OP_WRITE_CACHE', 'functions.OP_READ_CACHE', 'functions.OP_PUSH0', 'functions.OP_PUSH1',
           'functions.OP_PUSH2', 'functions.OP_FALSE', 'functions.OP_TRUE', 'functions.set_tape_flags']
LOCK_ASSUME = [
    'compile step: the builder\'s bytes equal the byte template -- translation validation on seeded samples on every '
    'run (bounded, labelled); the compiler itself is string code outside the solvers\' reach',
    'OP_CHECK_SIG is applied through abs_check_sig (justified by the discharged lemma C03/abs-sound against the C02 '
    'spec): it may fail for resource reasons (message longer than the item limit, full stack); `complete` clauses are '
    'stated for runs in which no such failure occurs',
    'negative clauses ("any witness made with a different key / over different sigfields is rejected") hold in the '
    'form "accepted only if sig_valid(sigfields, flags, key, signature)"; that a different key cannot produce such a '
    'signature is Ed25519 unforgeability (I-SIG), a probabilistic statement this family cannot decide',
    'set_tape_flags: assumed contract (bounded stand-in in C09)',
    'witness side: that the builders\' witnesses carry a valid signature is exercised natively by the bounded '
    'checks; E4 (sign / verify correctness of libsodium) is assumed',
]

PROPS['C13'] = {
    'functions': sorted(set(LOCK_VM + CLASSES + ERRORS)),
    'select': [r'^lemma/C13/', r'^templates/', r'^bounded/C13/',
               r'^functions\.(OP_CHECK_SIG|OP_CHECK_SIG_STACK|OP_IF_ELSE|OP_EVAL)/refine'],
    'trusted_base': TRUSTED_COMMON + ['E4: Ed25519 verification is an uninterpreted predicate'],
    'assumptions': ASSUME_COMMON + LOCK_ASSUME + [
        'multisig lock: the instruction-level lemma is C03 (m, n <= 3 / 4); graftap: key path = taproot key path lemma, '
        'script path = taproot script path lemma composed with the graftroot surrogate lemma (composition argued in '
        'DESIGN.md 9, not machine-checked)'],
    'extra': ['props.lemmas_locks:c13_locks', 'props.bounded:c13_builders'],
    'explanation': 'for ALL keys, flag bytes, sigfields and witness bytes: run_auth_scripts([witness, lock]) executed from '
                   'the real VM bodies on the builders\' byte templates accepts only if (and, absent resource failures, '
                   'if) the unlocking condition of the property holds: single-sig (both layouts), scripthash, graftroot '
                   'key and surrogate paths, taproot key path',
}

PROPS['C05'] = {
    'functions': sorted(set(LOCK_VM + ['functions.OP_TAPROOT'] + HELPERS + CLASSES + ERRORS)),
    'reject': [r'ks-frame'],          # (C08's clause; the control instructions are finding D5 there)
    'select': [r'^lemma/C05/', r'^templates/', r'^functions\.OP_TAPROOT/', r'^bounded/C05/',
               r'^functions\.(clamp_scalar|derive_point_from_scalar|aggregate_points)/'],
    'trusted_base': TRUSTED_COMMON + ['libsodium point / scalar arithmetic: uninterpreted functions with the argument checks '
                                      'PyNaCl performs (E1-E3 not needed: the root is compared as computed)'],
    'assumptions': ASSUME_COMMON + LOCK_ASSUME + [
        'root identity against an independent pure-Python Ed25519, builders\' witnesses unlock, native vs non-native '
        'equivalence: bounded stand-ins (labelled); the disagreement for committed scripts using handle 0 is finding D20'],
    'extra': ['props.lemmas_locks:c05_locks', 'props.bounded:c05_taproot'],
    'explanation': 'OP_TAPROOT body refines its spec (script path iff aggregate(derive(clamp(sha256(key || sha256(script)))), '
                   'key) == root, else false with nothing evaluated; key path = CHECK_SIG against the root); lock-level '
                   'lemmas: the committed script starts only if the pair recomputes to the root (and then it does); the '
                   'key path accepts exactly valid signatures under the root',
}

PROPS['C04'] = {
    'functions': sorted(set(LOCK_VM + ['functions.OP_MERKLEVAL', 'functions.OP_SWAP2', 'functions.OP_XOR',
                                       'functions.xor'] + CLASSES + ERRORS)),
    'reject': [r'ks-frame'],          # (C08's clause; the control instructions are finding D5 there)
    'select': [r'^lemma/C04/', r'^templates/', r'^functions\.OP_MERKLEVAL/', r'^functions\.xor/', r'^bounded/C04/'],
    'trusted_base': TRUSTED_COMMON + ['sha256: uninterpreted function with 32-byte output'],
    'assumptions': ASSUME_COMMON + LOCK_ASSUME + [
        'trees deeper than one level, both tree builders, pack / unpack: bounded stand-in (random trees, recording '
        'contract as first instruction of every leaf), labelled; the induction over tree depth (each level is an instance '
        'of the one-level lemma, the inner lock being `OP_MERKLEVAL <inner root>`) is argued in DESIGN.md, not machine-checked',
        'I-HASH / I-XOR: that a different (script, sibling) pair does not hash to the root is collision resistance'],
    'extra': ['props.lemmas_locks:c04_locks', 'props.bounded:c04_trees'],
    'explanation': 'OP_MERKLEVAL body refines "error, nothing evaluated, unless xor(sha256(sibling), sha256(sha256(script))) '
                   '== root; then OP_EVAL(script)"; xor verified byte-wise by loop invariant; one-level lock / witness '
                   'lemma: the supplied script starts only if it is committed, and then it does',
}


PROPS['C15'] = {
    'functions': sorted(set(LOCK_VM + ['functions.OP_CHECK_TIMESTAMP_VERIFY', 'functions.OP_CHECK_TIMESTAMP',
                                       'functions.OP_EQUAL'] + CLASSES + ERRORS)),
    'select': [r'^lemma/C15/', r'^templates/', r'^functions\.(OP_CHECK_TIMESTAMP(_VERIFY)?|OP_IF_ELSE|OP_CHECK_SIG)/refine'],
    'trusted_base': TRUSTED_COMMON + ['E4: Ed25519 verification is an uninterpreted predicate', 'time(): ghost integer `now`',
                                      'sha256 / shake256: uninterpreted functions with fixed output length'],
    'assumptions': ASSUME_COMMON + LOCK_ASSUME + [
        'the timestamp operand is 4 or 5 bytes long (creation time + timeout below 2**39; int(time()) today needs 4); the '
        'refund window is stated as the C16 window of OP_CHECK_TIMESTAMP_VERIFY (t >= ts and t - now < 60)',
        'HTLC layout 2 (receiver / refund keys committed by hash) and the tweak-point arithmetic of PTLC witnesses '
        '(sign_with_scalar on x + t) are not covered by a lemma: builders exercised natively only (not counted)',
        'a wrong preimage selects the refund path (that is what the lock does); "rejected" then means the refund '
        'conditions do not hold',
    ],
    'extra': ['props.lemmas_locks:c15_locks'],
    'explanation': 'for ALL digests, keys, timestamps operands, flag bytes, sigfields, execution timestamps and witness '
                   'bytes: the HTLC locks (sha256, shake256) accept exactly (preimage hashes to the digest and receiver\'s '
                   'signature) or (it does not, timeout reached within the C16 window, refund key\'s signature); the PTLC lock '
                   'accepts exactly the receiver\'s signature on the claim path and, after the timeout, the refund key\'s',
}

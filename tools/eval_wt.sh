#!/bin/sh
# tools/eval_wt.sh <worktree-dir> <seed-id> <property> [more properties...]
# Same as eval_mutant.sh for a worktree at an arbitrary path whose demonstration is <worktree-dir>/demo.py:
# confirms the change on scratch copies under $TMPDIR (suite still passes, demo exits 1 with / 0 without)
# and runs the given checks against the changed scratch copy (VERIF_REPO), never against /repo.
set -u
WT=$1; ID=$2; shift; shift
OUT=/verif/seeded/$ID
S=${TMPDIR:-/tmp}/mut_$ID
mkdir -p "$OUT"
git -C "$WT" diff -- tapescript > "$OUT/patch.diff"
cp "$WT/demo.py" "$OUT/demo_break.py"
rm -rf "$S"; mkdir -p "$S/clean" "$S/mut"
git -C /repo archive HEAD | tar -x -C "$S/clean"
git -C /repo archive HEAD | tar -x -C "$S/mut"
(cd "$S/mut" && patch -p1 -s < "$OUT/patch.diff")
cp "$OUT/demo_break.py" "$S/clean/"; cp "$OUT/demo_break.py" "$S/mut/"
(cd "$S/clean" && timeout 300 /venv/bin/python demo_break.py >/dev/null 2>&1); DC=$?
(cd "$S/mut" && timeout 300 /venv/bin/python demo_break.py >/dev/null 2>&1); DM=$?
T=$(cd "$S/mut" && /venv/bin/python -m pytest -q -p no:cacheprovider 2>&1 | tail -1)
echo "demo clean exit=$DC  demo mutated exit=$DM  tests(mutated): $T"
for P in "$@"; do
  ( cd /verif && VERIF_OUT="$OUT/run" VERIF_REPO="$S/mut" ./check "$P" > "$OUT/check_$P.txt" 2>&1; echo "check $P exit=$?"; grep -E "VIOLATION|UNDECIDED|CHECKER-FAULT|KNOWN" "$OUT/check_$P.txt" | cut -c1-220 | head -6 )
done
find "$OUT/run" -name "*.smt2" -delete 2>/dev/null
rm -rf "$S"

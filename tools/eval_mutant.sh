#!/bin/sh
# tools/eval_mutant.sh <worktree-id> <property> [more properties...]
# Confirms a seeded change (tests still pass, demo fails with / passes without) on scratch copies under
# $TMPDIR and runs the given checks against it (VERIF_REPO points the checks at the scratch copy).
set -u
ID=$1; shift
WT=/tmp/wt/$ID
OUT=/verif/seeded/$ID
S=${TMPDIR:-/tmp}/mut_$ID
mkdir -p "$OUT"
git -C "$WT" diff -- tapescript > "$OUT/patch.diff"
cp "$WT/demo_break.py" "$OUT/demo_break.py" 2>/dev/null
rm -rf "$S"; mkdir -p "$S/clean" "$S/mut"
git -C /repo archive HEAD | tar -x -C "$S/clean"
git -C /repo archive HEAD | tar -x -C "$S/mut"
(cd "$S/mut" && git apply --unsafe-paths "$OUT/patch.diff" 2>/dev/null || patch -p1 -s < "$OUT/patch.diff")
cp "$OUT/demo_break.py" "$S/clean/"; cp "$OUT/demo_break.py" "$S/mut/"
(cd "$S/clean" && timeout 300 /venv/bin/python demo_break.py >/dev/null 2>&1); DC=$?
(cd "$S/mut" && timeout 300 /venv/bin/python demo_break.py >/dev/null 2>&1); DM=$?
T=$(cd "$S/mut" && /venv/bin/python -m pytest -q -p no:cacheprovider 2>&1 | tail -1)
echo "demo clean exit=$DC  demo mutated exit=$DM  tests(mutated): $T"
for P in "$@"; do
  ( cd /verif && VERIF_OUT="$OUT/run" VERIF_REPO="$S/mut" ./check "$P" > "$OUT/check_$P.txt" 2>&1; echo "check $P exit=$?"; grep -E "VIOLATION|UNDECIDED|CHECKER-FAULT|KNOWN" "$OUT/check_$P.txt" | cut -c1-220 | head -6 )
done
rm -rf "$S"

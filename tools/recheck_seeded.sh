#!/bin/sh
# tools/recheck_seeded.sh [ids...]: re-runs, for every kept seeded change (seeded/<id>/patch.diff + meta.json),
# the registered quick check of its property against a scratch copy of /repo with the patch applied
# (VERIF_REPO / VERIF_OUT: nothing in /repo or in /verif/evidence is touched) and records exit code and
# verdict lines in seeded/<id>/check_<prop>.txt.  Expected: exit 1 with a VIOLATION line for every change.
cd /verif
IDS="$@"
[ -z "$IDS" ] && IDS=$(ls seeded)
for ID in $IDS; do
  P=$(python3 -c "import json;print(json.load(open('seeded/$ID/meta.json'))['property'])")
  S=${TMPDIR:-/tmp}/recheck_$ID
  rm -rf "$S"; mkdir -p "$S"
  git -C /repo archive HEAD | tar -x -C "$S"
  (cd "$S" && patch -p1 -s < /verif/seeded/$ID/patch.diff) || { echo "$ID: patch does not apply"; rm -rf "$S"; continue; }
  rm -rf seeded/$ID/run
  VERIF_OUT="/verif/seeded/$ID/run" VERIF_REPO="$S" ./check "$P" > "seeded/$ID/check_$P.txt" 2>&1
  E=$?
  find seeded/$ID/run -name "*.smt2" -delete 2>/dev/null
  N=$(grep -c "^VIOLATION" "seeded/$ID/check_$P.txt")
  C=$(grep "^VIOLATION" "seeded/$ID/check_$P.txt" | grep -vc "no-failing-input-found")
  echo "$ID $P exit=$E violations=$N with-failing-input=$C $(grep -E '^UNDECIDED|^CHECKER-FAULT' seeded/$ID/check_$P.txt | head -1 | cut -c1-120)"
  rm -rf "$S"
done
